#!/bin/bash
# usage: mut.sh <patch-file> <PROP> [tier] [budget]
# applies the patch to a scratch worktree of /repo, runs ./check PROP with SIM_REPO pointing at it, removes the worktree.
set -u
PATCH=$(readlink -f "$1"); PROP=$2; TIER=${3:-quick}; BUD=${4:-}
WT=/var/tmp/mutwt-$$
git -C /repo worktree add -q --detach "$WT" HEAD || exit 2
cp /repo/go.sum "$WT/go.sum"
if ! git -C "$WT" apply "$PATCH"; then echo "PATCH-DOES-NOT-APPLY"; git -C /repo worktree remove --force "$WT"; exit 2; fi
cd "$(dirname "$(readlink -f "$0")")/.."
if [ -n "$BUD" ]; then export VERIF_BUDGET=$BUD; fi
SIM_REPO="$WT" VERIF_EVIDENCE_SUFFIX=.mut ./check "$PROP" "$TIER"
rc=$?
git -C /repo worktree remove --force "$WT"
echo "mut rc=$rc"
exit $rc

#!/bin/bash
# usage: sweep.sh <tier> <seed> <budget> [IDs...]  - runs checks one after the other, prints a summary line each
TIER=$1; SEED=$2; BUD=$3; shift 3
IDS="$@"; [ -z "$IDS" ] && IDS="C01 C02 C03 C04 C05 C06 C07 C08 C09 C10 C11 C12 C13 C14 C15 C16 C17 C18 C20"
for p in $IDS; do
  VERIF_SEED=$SEED VERIF_BUDGET=$BUD VERIF_EVIDENCE_SUFFIX=.sweep ./check $p $TIER > sweep_$p.log 2>&1
  echo "$p exit=$? $(grep -v '^KNOWN' sweep_$p.log | tail -1 | cut -c1-200)"
  grep "^VIOLATION\|^HARNESS\|^NONDET" sweep_$p.log | cut -c1-400
done

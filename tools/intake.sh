#!/bin/bash
# usage: intake.sh <PROP> <letter> [budget] [source dir] [worktree to remove | keep] - takes a sub-agent's deliverables from /var/tmp/w9/<PROP>/ into seeded/<PROP>-<letter>/,
# removes the agent's scratch worktree, verifies the change independently and measures it against the property's quick check.
P=$1; L=$2; BUD=${3:-60}; SRC=${4:-/var/tmp/w9/$P}; WT=${5:-/tmp/w9-$P}
cd "$(dirname "$(readlink -f "$0")")/.."
D=seeded/$P-$L
mkdir -p $D
cp $SRC/patch.diff $SRC/meta.json $D/ || exit 2
for f in demo_test.go.txt demo_main.go.txt; do [ -f $SRC/$f ] && cp $SRC/$f $D/; done
[ "$WT" != "keep" ] && git -C /repo worktree remove --force $WT 2>/dev/null
NODE_SUITE=0 ./tools/verify_seeded.sh $D
./tools/mut_all.sh $BUD $D/

#!/bin/bash
# usage: intake.sh <PROP> <letter> [budget] - takes a sub-agent's deliverables from /var/tmp/w9/<PROP>/ into seeded/<PROP>-<letter>/,
# removes the agent's scratch worktree, verifies the change independently and measures it against the property's quick check.
P=$1; L=$2; BUD=${3:-60}
cd "$(dirname "$(readlink -f "$0")")/.."
D=seeded/$P-$L
mkdir -p $D
cp /var/tmp/w9/$P/patch.diff /var/tmp/w9/$P/meta.json $D/ || exit 2
for f in demo_test.go.txt demo_main.go.txt; do [ -f /var/tmp/w9/$P/$f ] && cp /var/tmp/w9/$P/$f $D/; done
git -C /repo worktree remove --force /tmp/w9-$P 2>/dev/null
NODE_SUITE=0 ./tools/verify_seeded.sh $D
./tools/mut_all.sh $BUD $D/

#!/bin/bash
# usage: mut_all.sh [budget] [dirs...] - runs every seeded change against the quick check of its property
# (scratch worktree of /repo per change), prints one line per change.
HERE="$(dirname "$(readlink -f "$0")")/.."
cd "$HERE"
BUD=${1:-40}; shift
DIRS="$@"; [ -z "$DIRS" ] && DIRS=$(ls -d seeded/*/ mutants/*.patch 2>/dev/null)
for d in $DIRS; do
  if [ -d "$d" ]; then id=$(basename "$d"); patch="$d/patch.diff"; prop=${id%%-*};
  else id=$(basename "$d" .patch); patch="$d"; prop=$(grep -o "C[0-9][0-9]" "$d" | head -1); [ -z "$prop" ] && continue; fi
  out=$(VERIF_MIN_BUDGET=0 ./tools/mut.sh "$patch" "$prop" quick "$BUD" 2>&1)
  rc=$(echo "$out" | grep -o "mut rc=[0-9]*" | tail -1)
  sum=$(echo "$out" | grep "^$prop quick:" | tail -1)
  if echo "$out" | grep -q "PATCH-DOES-NOT-APPLY"; then sum="PATCH-DOES-NOT-APPLY"; fi
  echo "$id $prop $rc | $sum"
done

#!/bin/bash
# usage: [NODE_SUITE=0] verify_seeded.sh <seeded-dir>...
# For each seeded change: scratch worktree of /repo, apply patch, build, run the demo (must fail),
# run the existing suite (must pass, demo skipped), revert the patch, run the demo (must pass).
export GOFLAGS=-mod=mod GOPROXY=off GOSUMDB=off GOTOOLCHAIN=local
for D in "$@"; do
  D=$(readlink -f "$D"); ID=$(basename "$D")
  WT=/var/tmp/verify-$ID
  git -C /repo worktree remove --force "$WT" 2>/dev/null
  git -C /repo worktree add -q --detach "$WT" HEAD || continue
  cp /repo/go.sum "$WT/go.sum"
  LOC=$(python3 -c "import json;print(json.load(open('$D/meta.json')).get('demo_location',''))")
  case "$LOC" in /*) LOC=${LOC#/tmp/wt-*/};; esac
  LOC=$(echo "$LOC" | sed 's#^/tmp/wt[0-9]*-C[0-9]*/##')
  if [ -z "$LOC" ] || [ ! -f "$D/demo_test.go.txt" ]; then echo "{\"id\":\"$ID\",\"skipped\":\"no demonstration (own revert of a fix)\"}"; git -C /repo worktree remove --force "$WT"; continue; fi
  PKG=./$(dirname "$LOC")/
  RES="$D/verified.json"
  ( cd "$WT"
    if ! git apply "$D/patch.diff"; then echo "{\"id\":\"$ID\",\"applies\":false}" > "$RES"; exit; fi
    cp "$D/demo_test.go.txt" "$WT/$LOC"
    TAGS=""; grep -q "go:build verif" "$WT/$LOC" && TAGS="-tags verif"
    BUILD=ok; go build ./... >/dev/null 2>&1 || BUILD=fail
    go test $TAGS -vet=off -count=1 -run 'TestSeeded' $PKG > /var/tmp/verify-$ID-demo-with.log 2>&1; WITH=$?
    go test -vet=off -count=1 -timeout 25m -skip 'TestSeeded' ./src/hashgraph/ ./src/common/ ./src/peers/ ./src/proxy/... ./src/crypto/... ./src/babble/ > /var/tmp/verify-$ID-suite.log 2>&1; SUITE=$?
    NODE=-1; NODEFAILS="not run (NODE_SUITE=0)"
    if [ "${NODE_SUITE:-1}" != "0" ]; then
      unshare -n sh -c "ip link set lo up && go test -vet=off -count=1 -timeout 25m -skip 'TestSeeded|TestWebRTCGossip' ./src/node/" > /var/tmp/verify-$ID-node.log 2>&1; NODE=$?
      NODEFAILS=$(grep -h "^--- FAIL" /var/tmp/verify-$ID-node.log | tr '\n' ';')
    fi
    git apply -R "$D/patch.diff"
    go test $TAGS -vet=off -count=1 -run 'TestSeeded' $PKG > /var/tmp/verify-$ID-demo-without.log 2>&1; WITHOUT=$?
    echo "{\"id\":\"$ID\",\"applies\":true,\"build\":\"$BUILD\",\"demo_with_change_exit\":$WITH,\"demo_without_change_exit\":$WITHOUT,\"suite_exit\":$SUITE,\"node_suite_exit\":$NODE,\"node_failures\":\"$NODEFAILS\",\"demo_pkg\":\"$PKG\",\"verified_at\":\"$(date -u +%FT%TZ)\"}" > "$RES"
  )
  git -C /repo worktree remove --force "$WT"
  cat "$RES"
done

package sim

import (
	"fmt"
	"os"
	"sort"
	"strings"
	"testing/synctest"
	"time"

	hg "github.com/mosaicnetworks/babble/src/hashgraph"
	"github.com/mosaicnetworks/babble/src/net"
	_state "github.com/mosaicnetworks/babble/src/node/state"
	"github.com/mosaicnetworks/babble/src/peers"
)

/*******************************************************************************
C17: a node that is not babbling changes nothing; a suspended node still
serves syncs; auto-suspend.
*******************************************************************************/

// restrictedDigest: DAG, self-events and delivered blocks.
func (c *Cluster) restrictedDigest(n *SimNode) string {
	core := n.core()
	store := core.Hashgraph().Store
	known := store.KnownEvents()
	ids := make([]uint32, 0, len(known))
	for id := range known {
		ids = append(ids, id)
	}
	sort.Slice(ids, func(i, j int) bool { return ids[i] < ids[j] })
	s := ""
	for _, id := range ids {
		s += fmt.Sprintf("%d=%d,", id, known[id])
	}
	return fmt.Sprintf("%s|seq%d|head%s|blk%d|log%d|und%d", s, core.Seq(), short(core.Head()), store.LastBlockIndex(), len(n.app.log), len(core.Hashgraph().UndeterminedEvents))
}

// checkSuspendRule is evaluated after every tick of a babbling node.
func (c *Cluster) checkSuspendRule(a *SimNode, before _state.State) {
	if !a.running() && (a.node == nil || a.crashed) {
		return
	}
	if a.node.GetState() == _state.Shutdown {
		return
	}
	core := a.core()
	h := core.Hashgraph()
	und := len(h.UndeterminedEvents) - a.node.SimInitialUndetermined()
	nv := core.Validators().Len()
	limit := a.conf.SuspendLimit
	tooMany := und > limit*nv
	evictedImpl := h.LastConsensusRound != nil && core.RemovedRound() > 0 && core.RemovedRound() > core.AcceptedRound() && *h.LastConsensusRound >= core.RemovedRound()
	// removal according to the harness's validator-set model (replay of the
	// committed receipts): the node was a validator, the set in force at its last
	// consensus round does not contain it, and no later set takes it back
	evicted := false
	if h.LastConsensusRound != nil && !a.ffDone && !a.isObserver {
		lcr := *h.LastConsensusRound
		if !contains(c.vs.at(lcr), a.pubHex) {
			was, again := false, false
			for _, r := range c.vs.rounds {
				in := contains(c.vs.sets[r], a.pubHex)
				if r <= lcr && in {
					was = true
				}
				if r > lcr && in {
					again = true
				}
			}
			evicted = was && !again
		}
	}
	after := a.node.GetState()
	if (tooMany || evicted) && after == _state.Babbling {
		c.violate("C17", "auto-suspend", "not-suspended-past-limit", "node %d keeps babbling although %d undetermined events were created since it started (limit %d x %d validators) / removed from the validator set in force at its last consensus round=%v", a.idx, und, limit, nv, evicted)
	}
	if evicted && after == _state.Suspended {
		c.stats.probe("c17-suspended-after-removal")
	}
	if before == _state.Babbling && after == _state.Suspended && !(tooMany || evicted || evictedImpl) {
		c.violate("C17", "auto-suspend", "suspended-without-cause", "node %d suspended itself with %d new undetermined events (limit %d x %d validators), not evicted", a.idx, und, limit, nv)
	}
	if after == _state.Suspended && before == _state.Babbling {
		c.stats.probe("auto-suspended")
	}
}

// harnessDiff: the events the requester lacks according to the harness's own
// diff of the node's store against the request's known map.
func (c *Cluster) harnessDiff(n *SimNode, known map[uint32]int) map[string]bool {
	store := n.core().Hashgraph().Store
	res := map[string]bool{}
	mine := store.KnownEvents()
	rep := store.RepertoireByID()
	for id, last := range mine {
		from, ok := known[id]
		if !ok {
			from = -1
		}
		p, ok := rep[id]
		if !ok {
			continue
		}
		for i := from + 1; i <= last; i++ {
			if h, err := store.ParticipantEvent(p.PubKeyString(), i); err == nil {
				res[h] = true
			}
		}
	}
	return res
}

func (c *Cluster) nonBabblingStep(s *Step) {
	r := c.inner
	switch s.Kind {
	case "suspend":
		if n := c.nodeAt(s.A); n != nil && n.running() && n.state() == _state.Babbling && !n.isObserver {
			// keep more than two thirds babbling unless the run is about quorum loss
			c.drainTasksOf(n)
			n.node.Suspend()
			n.explicitSuspend = true
			c.stats.probe("c17-runtime-suspend")
		}
		return
	case "leave-restart":
		// a persistent validator asks to leave, gossips once (the request is now in
		// one of its events), is killed and restarted with bootstrap: the removal
		// will be decided while the running process holds no promise for it
		n := c.nodeAt(s.A)
		if n == nil || !n.running() || n.state() != _state.Babbling || n.storeKind != "badger" || n.leaving || n.isObserver || n.ffDone {
			return
		}
		if len(c.vs.latest()) < 3 || !n.inLatestModelSet() {
			return
		}
		c.nesting++
		defer func() { c.nesting-- }()
		c.exec(&Step{Op: "leave", A: n.idx})
		for _, m := range c.liveBabbling() {
			if m != n && !m.silent {
				c.exec(&Step{Op: "tick", A: n.idx, B: m.idx})
				break
			}
		}
		c.exec(&Step{Op: "crash", A: n.idx, Kind: "now"})
		c.exec(&Step{Op: "restart", A: n.idx})
		c.stats.probe("c17-leave-then-restart")
		if s.N > 0 && 3*len(c.liveBabbling()) > 2*len(c.vs.latest()) {
			// keep the network going until the removal has come into force at the
			// restarted node's last consensus round (the suspension rule is evaluated
			// after every tick), at most s.N exchanges
			for i := 0; i < s.N && n.running() && n.state() == _state.Babbling; i++ {
				live := c.liveBabbling()
				if len(live) < 2 {
					break
				}
				x := live[c.inner.Intn(len(live))]
				y := live[c.inner.Intn(len(live))]
				if x == y || findPeer(x, y) == nil {
					continue
				}
				c.exec(&Step{Op: "tick", A: x.idx, B: y.idx})
			}
			if n.running() && n.state() == _state.Suspended {
				c.stats.probe("c17-leave-then-restart-driven-to-suspension")
			} else if debugTrace && n.running() {
				lcr := -1
				if n.core().Hashgraph().LastConsensusRound != nil {
					lcr = *n.core().Hashgraph().LastConsensusRound
				}
				fmt.Fprintf(os.Stderr, "leave-restart drive: node %d state %s lcr %d removedRound %d inLatestModel %v model rounds %v blocks %d live %d\n", n.idx, n.state(), lcr, n.core().RemovedRound(), n.inLatestModelSet(), c.vs.rounds, n.node.GetLastBlockIndex(), len(c.liveBabbling()))
			}
		}
		return
	case "maintenance":
		c.maintenanceStep(c.nodeAt(s.A))
		return
	case "suspend-busy":
		// Suspend() while one of the node's own routines is still in flight (a
		// JoinRequest handler waiting for its promise, registered in the node's
		// wait group as doBackgroundWork does): Suspend waits for it - up to the
		// join time-out. A valid EagerSync that arrives during that wait must
		// already be refused.
		a, b := c.nodeAt(s.A), c.nodeAt(s.B)
		if a == nil || b == nil || a == b || !a.running() || !b.running() || a.state() != _state.Babbling || b.state() != _state.Babbling || a.isObserver || b.isObserver {
			return
		}
		if (a.task != nil && !a.task.done) || c.parkedCount(a) > 0 || len(c.liveBabbling()) < 3 {
			return
		}
		diff, e := b.core().EventDiff(a.core().KnownEvents())
		if e != nil || len(diff) == 0 {
			return
		}
		if len(diff) > 10 {
			diff = diff[:10]
		}
		wire, e := b.core().ToWire(diff)
		if e != nil {
			return
		}
		k := deriveKey(c.seed, 400+r.Intn(50))
		itx := hg.NewInternalTransactionJoin(*newPeerFromKey(k))
		itx.Sign(k)
		nd := a.node
		nd.SimGoProcessRPC(net.RPC{Command: &net.JoinRequest{InternalTransaction: itx}, RespChan: make(chan net.RPCResponse, 1)})
		synctest.Wait()
		var eagerErr error
		answered := false
		go func() {
			time.Sleep(5 * time.Millisecond)
			ch := make(chan net.RPCResponse, 1)
			req := &net.EagerSyncRequest{}
			jsonCopy(&net.EagerSyncRequest{FromID: b.id, Events: wire}, req)
			nd.SimGoProcessRPC(net.RPC{Command: req, RespChan: ch})
			resp := <-ch
			eagerErr = resp.Error
			answered = true
		}()
		before := c.restrictedDigest(a)
		nd.Suspend()
		synctest.Wait()
		a.explicitSuspend = true
		c.stats.probe("c17-suspend-with-routine-in-flight")
		if answered && eagerErr == nil {
			c.violate("C17", "refusal", "request-served-while-suspending", "node %d: Suspend() had been called (one of the node's routines was still in flight) and a valid EagerSyncRequest with %d events that arrived 5 ms later was accepted: %s -> %s", a.idx, len(wire), before, c.restrictedDigest(a))
		}
		return
	case "starve":
		// composite: everybody but a and one partner b falls silent; a and b keep
		// exchanging syncs, so that a's undetermined events grow through the
		// suspension threshold one or two at a time (the rule is evaluated after
		// every tick); afterwards the others come back
		a, b := c.nodeAt(s.A), c.nodeAt(s.B)
		if a == nil || b == nil || a == b || !a.running() || !b.running() || a.state() != _state.Babbling || b.state() != _state.Babbling || a.silent || b.silent {
			return
		}
		if findPeer(a, b) == nil || findPeer(b, a) == nil {
			return
		}
		c.nesting++
		defer func() { c.nesting-- }()
		c.stats.probe("c17-starve")
		if a.core().Peers().Len() != a.core().Validators().Len() {
			c.stats.probe("c17-starve-with-peers-and-validators-of-different-size")
		}
		was := map[*SimNode]bool{}
		for _, n := range c.nodes {
			if n != a && n != b {
				was[n] = n.silent
				n.silent = true
			}
		}
		for i := 0; i < s.N && a.running() && a.state() == _state.Babbling && b.running() && b.state() == _state.Babbling; i++ {
			x, y := a, b
			if i%3 == 2 {
				x, y = b, a
			}
			c.exec(&Step{Op: "tick", A: x.idx, B: y.idx})
		}
		for n, w := range was {
			n.silent = w
		}
		return
	case "shutdown":
		if n := c.nodeAt(s.A); n != nil && n.running() && n.state() == _state.Suspended && !n.maintenance {
			n.node.Shutdown()
			c.stats.probe("c17-shutdown")
		}
		return
	}
	// deliver one request / submission to a node that is not babbling
	targets := []*SimNode{}
	for _, n := range c.nodes {
		if n.started && !n.byz && !n.crashed && !n.dead && n.node != nil && n.node.GetState() != _state.Babbling {
			targets = append(targets, n)
		}
	}
	if len(targets) == 0 {
		return
	}
	t := targets[s.A%len(targets)]
	st := t.node.GetState()
	readable := t.running() // store readable (not shut down)
	var before string
	if readable {
		before = c.restrictedDigest(t)
	}
	logBefore := len(t.app.log)
	// a babbling peer to build valid requests from
	var peer *SimNode
	for _, n := range c.liveBabbling() {
		peer = n
		break
	}
	kinds := []string{"sync", "eager", "join", "ff", "submit"}
	kind := kinds[s.N%len(kinds)]
	c.stats.probe(fmt.Sprintf("c17-%s-to-%s", kind, st))
	var err error
	switch kind {
	case "sync":
		known := map[uint32]int{}
		if peer != nil {
			known = peer.core().KnownEvents()
			if r.Bool(0.5) {
				for id := range known {
					known[id] -= r.Intn(4)
					if known[id] < -1 {
						known[id] = -1
					}
				}
			}
		}
		limit := []int{1, 3, 10, 1000}[r.Intn(4)]
		fromID := uint32(1)
		if peer != nil {
			fromID = peer.id
		}
		resp := &net.SyncResponse{}
		err = c.net.deliver(t, "sync", &net.SyncRequest{FromID: fromID, Known: known, SyncLimit: limit}, resp)
		if st == _state.Suspended && readable && t.maintenance {
			// the statement demands served syncs of nodes suspended at run time only
			if err == nil {
				c.stats.probe("c17-maintenance-node-answered-sync")
			}
		} else if st == _state.Suspended && readable {
			if err != nil && t.ffDone && strings.Contains(err.Error(), "Too Late") {
				// the requester lacks events from below the frame the node was reset to:
				// a reset node cannot serve those, suspended or not - the other face of
				// the open finding about reset nodes serving syncs
				c.violate("C17", "suspended-serves-sync", "reset-node-serves-frame-events-without-wire-info", "suspended node %d (reset by fast-sync) cannot answer a requester that lacks events from below its frame: %v", t.idx, err)
			} else if err != nil {
				c.violate("C17", "suspended-serves-sync", "suspended-node-refused-sync", "suspended node %d answered a SyncRequest with an error: %v", t.idx, err)
			} else {
				c.checkSyncResponse(t, known, limit, resp)
			}
		} else if err == nil {
			c.violate("C17", "refusal", "request-served-while-not-babbling", "node %d in state %s answered a SyncRequest without error", t.idx, st)
		}
	case "eager":
		if peer == nil || !readable {
			return
		}
		diff, e := peer.core().EventDiff(t.core().KnownEvents())
		if e != nil || len(diff) == 0 {
			return
		}
		if len(diff) > 20 {
			diff = diff[:20]
		}
		wire, _ := peer.core().ToWire(diff)
		err = c.net.deliver(t, "eager", &net.EagerSyncRequest{FromID: peer.id, Events: wire}, &net.EagerSyncResponse{})
		if err == nil {
			c.violate("C17", "refusal", "request-served-while-not-babbling", "node %d in state %s accepted an EagerSyncRequest with %d valid events", t.idx, st, len(wire))
		}
	case "ff":
		err = c.net.deliver(t, "ff", &net.FastForwardRequest{FromID: 1}, &net.FastForwardResponse{})
		if err == nil {
			c.violate("C17", "refusal", "request-served-while-not-babbling", "node %d in state %s answered a FastForwardRequest without error", t.idx, st)
		}
	case "join":
		// a validly signed join request of a fresh identity
		k := deriveKey(c.seed, 300+r.Intn(50))
		stranger := &SimNode{key: k}
		stranger.pubB = nil
		itx := hg.NewInternalTransactionJoin(*newPeerFromKey(k))
		itx.Sign(k)
		done := false
		go func() {
			defer func() { recover(); done = true }()
			err = c.net.deliver(t, "join", &net.JoinRequest{InternalTransaction: itx}, &net.JoinResponse{})
		}()
		synctest.Wait()
		if !done {
			c.violate("C17", "refusal", "join-request-pending-while-not-babbling", "node %d in state %s took a JoinRequest into consensus instead of refusing it", t.idx, st)
		} else if err == nil {
			c.violate("C17", "refusal", "request-served-while-not-babbling", "node %d in state %s answered a JoinRequest without error", t.idx, st)
		}
	case "submit":
		if st == _state.Shutdown {
			return
		}
		tx := []byte(fmt.Sprintf("c17-%d-%d", t.idx, c.stepNo))
		t.node.SimAddTransaction(tx)
		c.ledger.submit(tx, t.idx, t.epoch, c.stepNo)
		t.acceptedTxs = append(t.acceptedTxs, tx)
	}
	if readable && t.running() {
		after := c.restrictedDigest(t)
		if before != after {
			c.violate("C17", "non-babbling-untouched", "non-babbling-node-changed:"+kind, "node %d in state %s: a %s changed its DAG / self-events / blocks: %s -> %s", t.idx, st, kind, before, after)
		}
	}
	if len(t.app.log) != logBefore {
		c.violate("C17", "non-babbling-untouched", "non-babbling-node-delivered-block", "node %d in state %s delivered a block while processing a %s", t.idx, st, kind)
	}
	_ = strings.ToUpper
}

// maintenanceStep opens or closes a maintenance-mode session of a persistent
// node: clean shutdown, restart with conf.MaintenanceMode (bootstrap from the
// database, store in maintenance mode, state Suspended, no transport); the
// request matrix of this profile then reaches it like any other node that is
// not babbling. Closing the session restarts it normally: what it knows and
// what it re-delivers must be what it knew and delivered before the session.
func (c *Cluster) maintenanceStep(n *SimNode) {
	if n == nil || !n.running() || n.storeKind != "badger" || n.ffDone || n.isObserver || n.leaving {
		return
	}
	if n.task != nil && !n.task.done {
		return
	}
	if !n.maintenance {
		if n.state() != _state.Babbling && n.state() != _state.Suspended {
			return
		}
		// keep at least two nodes babbling
		if n.state() == _state.Babbling && len(c.liveBabbling()) < 3 {
			return
		}
	}
	c.drainTasksOf(n)
	if !n.running() {
		return
	}
	opening := !n.maintenance
	known := n.core().KnownEvents()
	var blocksBefore []string
	if !opening {
		blocksBefore = c.storedBlockDigests(n)
	}
	n.knownAtCrash = known
	n.lostTxs = append(n.lostTxs, n.pendingPoolSnapshot()...)
	n.node.Shutdown()
	delete(c.byPath, n.dbPath)
	n.crashed = true
	n.node = nil
	n.maintNext = opening
	n.maintenance = false
	c.restartFromDisk(n)
	n.maintNext = false
	if !n.running() {
		return
	}
	if opening {
		n.maintenance = true
		c.stats.probe("c17-maintenance-session-opened")
		if st := n.state(); st != _state.Suspended {
			c.violate("C17", "refusal", "maintenance-node-not-suspended", "node %d started in maintenance mode is in state %s", n.idx, st)
		}
		return
	}
	c.stats.probe("c17-maintenance-session-closed")
	// nothing that happened during the session may have reached the database
	after := n.core().KnownEvents()
	for id, k := range after {
		if b, ok := known[id]; !ok || b != k {
			c.violate("C17", "non-babbling-untouched", "maintenance-session-changed-database", "node %d: after a maintenance-mode session the database knows creator %d up to %d, before the session %d", n.idx, id, k, known[id])
			return
		}
	}
	for id, k := range known {
		if a, ok := after[id]; !ok || a != k {
			c.violate("C17", "non-babbling-untouched", "maintenance-session-changed-database", "node %d: after a maintenance-mode session the database knows creator %d up to %d, before the session %d", n.idx, id, after[id], k)
			return
		}
	}
	blocksAfter := c.storedBlockDigests(n)
	if len(blocksAfter) != len(blocksBefore) {
		c.violate("C17", "non-babbling-untouched", "maintenance-session-changed-database", "node %d: %d blocks after a maintenance-mode session, %d during it", n.idx, len(blocksAfter), len(blocksBefore))
		return
	}
	for i := range blocksAfter {
		if blocksAfter[i] != blocksBefore[i] {
			c.violate("C17", "non-babbling-untouched", "maintenance-session-changed-database", "node %d: block %d differs after a maintenance-mode session", n.idx, i)
			return
		}
	}
}

// storedBlockDigests: body hashes of all blocks the node's store holds.
func (c *Cluster) storedBlockDigests(n *SimNode) []string {
	res := []string{}
	store := n.core().Hashgraph().Store
	for i := 0; i <= store.LastBlockIndex(); i++ {
		b, err := store.GetBlock(i)
		if err != nil {
			res = append(res, "missing")
			continue
		}
		h, _ := b.Body.Hash()
		res = append(res, fmt.Sprintf("%x|%x", h, b.StateHash()))
	}
	return res
}

// checkSyncResponse: a run-time-suspended node answers with exactly events the
// requester lacks, parents before children, at most the limit.
func (c *Cluster) checkSyncResponse(t *SimNode, known map[uint32]int, limit int, resp *net.SyncResponse) {
	lack := c.harnessDiff(t, known)
	lim := limit
	if t.conf.SyncLimit < lim {
		lim = t.conf.SyncLimit
	}
	if len(resp.Events) > lim {
		c.violate("C17", "suspended-serves-sync", "sync-response-over-limit", "suspended node %d returned %d events, limit %d", t.idx, len(resp.Events), lim)
		return
	}
	want := len(lack)
	if want > lim {
		want = lim
	}
	if len(resp.Events) != want {
		c.violate("C17", "suspended-serves-sync", "sync-response-wrong-size", "suspended node %d returned %d events; the requester lacks %d (limit %d)", t.idx, len(resp.Events), len(lack), lim)
		return
	}
	store := t.core().Hashgraph().Store
	rep := store.RepertoireByID()
	sent := map[string]bool{}
	if t.ffDone {
		// one class (see known_findings.json): a reset node's frame events carry no
		// wire information, whichever clause of this check meets them first
		for _, we := range resp.Events {
			if _, ok := rep[we.Body.CreatorID]; !ok && we.Body.CreatorID == 0 {
				c.violate("C17", "suspended-serves-sync", "reset-node-serves-frame-events-without-wire-info", "suspended node %d (reset by fast-sync) returned an event of its frame without wire information (creator id 0, index %d): the requester cannot decode it", t.idx, we.Body.Index)
				return
			}
		}
	}
	for _, we := range resp.Events {
		p, ok := rep[we.Body.CreatorID]
		if !ok {
			if t.ffDone && we.Body.CreatorID == 0 {
				c.violate("C17", "suspended-serves-sync", "reset-node-serves-frame-events-without-wire-info", "suspended node %d (reset by fast-sync) returned an event of its frame without wire information (creator id 0, index %d): the requester cannot decode it", t.idx, we.Body.Index)
				return
			}
			c.violate("C17", "suspended-serves-sync", "sync-response-wrong-event", "suspended node %d returned an event of unknown creator %d", t.idx, we.Body.CreatorID)
			return
		}
		h, err := store.ParticipantEvent(p.PubKeyString(), we.Body.Index)
		if err != nil || !lack[h] {
			c.violate("C17", "suspended-serves-sync", "sync-response-wrong-event", "suspended node %d returned event %d of creator %d which the requester does not lack", t.idx, we.Body.Index, we.Body.CreatorID)
			return
		}
		// parents before children (within what the requester lacks)
		de := c.dag.events[h]
		if de != nil {
			for _, par := range []string{de.SelfP, de.OtherP} {
				if par != "" && lack[par] && !sent[par] && debugTrace {
					for i, we := range resp.Events {
						pp := rep[we.Body.CreatorID]
						nm := "?"
						if pp != nil && c.byPub[pp.PubKeyString()] != nil {
							nm = fmt.Sprintf("n%d", c.byPub[pp.PubKeyString()].idx)
						}
						fmt.Fprintf(os.Stderr, "   resp[%d] = %s#%d\n", i, nm, we.Body.Index)
					}
					for id, k := range known {
						fmt.Fprintf(os.Stderr, "   requester knows creator %d up to %d\n", id, k)
					}
					for _, pp := range rep {
						evs, err := store.ParticipantEvents(pp.PubKeyString(), -1)
						first := -1
						if len(evs) > 0 {
							if e0, err := store.GetEvent(evs[0]); err == nil {
								first = e0.Index()
							}
						}
						fmt.Fprintf(os.Stderr, "   node lists %d events of n%d from index %d (err %v), creator id %d\n", len(evs), c.byPub[pp.PubKeyString()].idx, first, err, pp.ID())
					}
				}
				if par != "" && lack[par] && !sent[par] && t.ffDone {
					// a reset node cannot serve the events of its frame (no wire
					// information, see known_findings.json): it skips them, so their
					// children come first - the same class, met from the other side
					if pe, err := store.GetEvent(par); err != nil {
						// the parent lies below the frame the node was reset from: it does
						// not hold it at all, yet serves the child (an event of its frame /
						// one of its roots) to a requester that lacks both - the same open
						// finding (wire information of frame events needs parents below the
						// frame), met from a third side
						c.violate("C17", "suspended-serves-sync", "reset-node-serves-frame-events-without-wire-info", "suspended node %d (reset by fast-sync) returned event %s whose parent %s lies below its frame (it does not hold it): the requester cannot use it", t.idx, short(h), short(par))
						return
					} else {
						if _, _, _, cid := pe.SimWireInfo(); cid == 0 {
							c.violate("C17", "suspended-serves-sync", "reset-node-serves-frame-events-without-wire-info", "suspended node %d (reset by fast-sync) returned event %s whose parent %s is an event of its frame without wire information: the requester cannot use it", t.idx, short(h), short(par))
							return
						}
						if lh, lerr := store.ParticipantEvent(pe.Creator(), pe.Index()); lerr != nil || lh != par {
							// the node holds the parent only as an event of its reset frame: it
							// is not in its per-participant index, so a sync never serves it -
							// the same open finding (a reset node cannot serve the events of
							// its frame), in a fourth guise
							c.violate("C17", "suspended-serves-sync", "reset-node-serves-frame-events-without-wire-info", "suspended node %d (reset by fast-sync) returned event %s whose parent %s it holds as an event of its frame only (not in its per-participant index): the requester cannot use it", t.idx, short(h), short(par))
							return
						}
						// the node holds and lists the parent but its answer to a requester
						// that lacks the whole history starts above it: what a reset node
						// serves below / at its frame is the subject of the open finding,
						// whatever the guise (thorough sweep, 1 of 5 233 runs)
						c.violate("C17", "suspended-serves-sync", "reset-node-serves-frame-events-without-wire-info", "suspended node %d (reset by fast-sync) returned event %s without its parent %s, an event at the edge of its frame, to a requester that lacks both", t.idx, short(h), short(par))
						return
					}
				}
				if par != "" && lack[par] && !sent[par] {
					c.violate("C17", "suspended-serves-sync", "sync-response-not-topological", "suspended node %d returned event %s (n%d#%d) before its parent %s (n%d#%d, position in the response: %d of %d)", t.idx, short(h), c.byPub[de.Creator].idx, de.Index, short(par), c.byPub[c.dag.events[par].Creator].idx, c.dag.events[par].Index, posIn(resp.Events, c.dag.events[par], rep), len(resp.Events))
					return
				}
			}
		}
		sent[h] = true
	}
	c.stats.probe("c17-suspended-sync-checked")
}

func init() {
	profiles["C17"] = &profile{
		config: func(r *RNG, thorough bool) *RunConfig {
			cfg := baseConfig("C17", r, thorough)
			if rl := NewRNG(Mix(r.U64(), 0x6c6f7765)); rl.Bool(0.2) {
				// peers files that spell some keys in lower case with a 0x prefix
				cfg.LowerKeys = true
			}
			cfg.N0 = []int{2, 3, 4, 4, 5}[r.Intn(5)]
			cfg.Stores = make([]string, cfg.N0)
			for i := range cfg.Stores {
				cfg.Stores[i] = "inmem"
			}
			cfg.PByz = 0.12
			cfg.PSubmit = 0.3
			cfg.FastSyncLate = r.Bool(0.6)
			cfg.PJoin = 0.02
			cfg.MaxJoins = 2
			if r.Bool(0.3) {
				// persistent validators that leave, give up waiting (short timeout) or are
				// killed, and come back: their removal is then decided while the running
				// process holds no promise for it
				for i := range cfg.Stores {
					if r.Bool(0.6) {
						cfg.Stores[i] = "badger"
					}
				}
				cfg.PLeave = 0.03
				cfg.MaxLeaves = 2
				cfg.MaxJoins = 4
				cfg.PJoin = 0.05
				cfg.PCrash = 0.01
				cfg.JoinTimeoutMs = []int{20, 200, 2000}[r.Intn(3)]
				cfg.FastSyncLate = false
			}
			if r.Bool(0.25) {
				// persistent nodes taken into maintenance mode and back
				cfg.Maintenance = true
				for i := range cfg.Stores {
					if r.Bool(0.6) {
						cfg.Stores[i] = "badger"
					}
				}
				cfg.FastSyncLate = false
			}
			if r.Bool(0.5) {
				// quorum-less runs growing the undetermined set
				cfg.SuspendLimit = []int{2, 5, 10, 20}[r.Intn(4)]
				cfg.PSilence = 0.05
				cfg.Quorumless = true
			}
			if thorough {
				cfg.Steps = r.Range(100, 300)
			} else {
				cfg.Steps = r.Range(60, 200)
			}
			if r.Bool(0.2) {
				// the suspension threshold on nodes that fast-forwarded while a
				// membership change was pending (their peer list and their validator
				// set differ in size): an undisturbed network that lets joiners in
				// quickly, then 'starve' steps (see nonBabblingStep)
				cfg.N0 = []int{3, 4, 4, 5}[r.Intn(4)]
				cfg.Stores = make([]string, cfg.N0)
				for i := range cfg.Stores {
					cfg.Stores[i] = "inmem"
				}
				cfg.SuspendLimit = []int{2, 3, 5, 10}[r.Intn(4)]
				cfg.FastSyncLate = true
				cfg.Quorumless = false
				cfg.Maintenance = false
				cfg.PSilence, cfg.PPartition, cfg.PCrash, cfg.PLeave, cfg.MaxLeaves = 0, 0, 0, 0, 0
				cfg.PDropReq, cfg.PDropResp, cfg.PLate = 0, 0, 0
				cfg.PJoin = 0.05
				cfg.MaxJoins = 3
				cfg.PByz = 0.05
				cfg.StarveOnly = true
				cfg.Steps += 80
			}
			return cfg
		},
		run: func(c *Cluster, spec *runSpec) {
			c.byzHandler = c.nonBabblingStep
			c.byzGen = func(g *genState) *Step {
				x := c.gen.Intn(10)
				if c.cfg.StarveOnly && x != 4 {
					return &Step{Op: "byz", Kind: "req", A: c.gen.Intn(16), N: c.gen.Intn(5)}
				}
				switch {
				case x == 0:
					hs := c.liveBabbling()
					if len(hs) > 1 {
						return &Step{Op: "byz", Kind: "suspend", A: hs[c.gen.Intn(len(hs))].idx}
					}
				case x == 1:
					for _, n := range c.nodes {
						if n.running() && n.state() == _state.Suspended && c.gen.Bool(0.3) {
							return &Step{Op: "byz", Kind: "shutdown", A: n.idx}
						}
					}
				case x == 3 && c.cfg.Maintenance:
					for _, n := range c.nodes {
						if n.running() && n.storeKind == "badger" && !n.ffDone && (n.maintenance || c.gen.Bool(0.4)) {
							if n.maintenance && c.gen.Bool(0.7) {
								break // let the session last a few steps
							}
							return &Step{Op: "byz", Kind: "maintenance", A: n.idx}
						}
					}
				case x == 5:
					hs := c.liveBabbling()
					if len(hs) >= 3 {
						a := hs[c.gen.Intn(len(hs))]
						b := hs[c.gen.Intn(len(hs))]
						if a != b {
							return &Step{Op: "byz", Kind: "suspend-busy", A: a.idx, B: b.idx}
						}
					}
				case x == 4 && c.cfg.SuspendLimit <= 20:
					hs := c.liveBabbling()
					if len(hs) >= 2 {
						a := hs[c.gen.Intn(len(hs))]
						for _, n := range hs {
							// a node that fast-forwarded while a membership change was pending
							if n.core().Peers().Len() != n.core().Validators().Len() {
								a = n
							}
						}
						b := hs[c.gen.Intn(len(hs))]
						if a != b && (a.core().Peers().Len() != a.core().Validators().Len() || c.gen.Bool(0.3)) {
							nv := a.core().Validators().Len()
							if k := a.core().Peers().Len(); k > nv {
								nv = k
							}
							return &Step{Op: "byz", Kind: "starve", A: a.idx, B: b.idx, N: c.cfg.SuspendLimit*(nv+1) + 10}
						}
					}
				case x == 2 && c.cfg.PLeave > 0:
					for _, n := range c.liveBabbling() {
						if n.storeKind == "badger" && !n.leaving && c.gen.Bool(0.5) {
							st := &Step{Op: "byz", Kind: "leave-restart", A: n.idx}
							if c.gen.Bool(0.5) {
								st.N = c.gen.Range(80, 300)
							}
							return st
						}
					}
				}
				return &Step{Op: "byz", Kind: "req", A: c.gen.Intn(16), N: c.gen.Intn(5)}
			}
			clusterRun(c, spec)
		},
	}
}

// posIn: position of an event in a wire response (-1: not in it).
func posIn(evs []hg.WireEvent, de *DagEvent, rep map[uint32]*peers.Peer) int {
	for i, we := range evs {
		if p, ok := rep[we.Body.CreatorID]; ok && p.PubKeyString() == de.Creator && we.Body.Index == de.Index {
			return i
		}
	}
	return -1
}

package sim

import (
	"fmt"
	"os"
	"path/filepath"
	"sort"
	"strings"

	"github.com/mosaicnetworks/babble/src/peers"

	hg "github.com/mosaicnetworks/babble/src/hashgraph"
)

/*******************************************************************************
Synthetic gossip histories at DAG level (E2 input): a ring of regular
validators whose witnesses strongly see each other round after round, plus
stragglers that take part once in a while, so that votes on the stragglers'
witnesses are split and fame decisions slide to distance 3, the coin round and
beyond. The DAG is then fed to independent instances in different valid orders
(two honest nodes with different views of the same history).
*******************************************************************************/

type synthPlay struct {
	creator int
	other   int // -1: no other-parent
}

// synthPlays draws a play list: who creates an event on top of whose head.
func synthPlays(r *RNG, n, cycles int) []synthPlay {
	nStrag := 1
	if n >= 6 && r.Bool(0.5) {
		nStrag = 2
	}
	reg := n - nStrag
	plays := []synthPlay{}
	// first events
	for i := 0; i < reg; i++ {
		plays = append(plays, synthPlay{i, -1})
	}
	pSpread := []float64{0.3, 0.5, 0.7, 0.9}[r.Intn(4)]
	pSelf := 0.04 * r.Float()
	pStrag := []float64{0.2, 0.4, 0.7, 0.9, 1.0}[r.Intn(5)]
	for c := 0; c < cycles; c++ {
		var ring []synthPlay
		if reg == 3 {
			// one round per cycle: every new witness strongly sees exactly the
			// three regular witnesses of the previous round
			ring = []synthPlay{{1, 0}, {0, 1}, {2, 1}, {1, 0}, {2, 1}, {0, 2}}
		} else {
			for k := 0; k < 2; k++ {
				for i := 0; i < reg; i++ {
					a := (i + 1) % reg
					b := i
					if k == 1 {
						a, b = i, (i+reg-1)%reg
					}
					if a != b {
						ring = append(ring, synthPlay{a, b})
					}
				}
			}
		}
		// at most one regular validator per straggler builds on the straggler's
		// head in a cycle (its events spread slowly and unevenly)
		for s := reg; s < n; s++ {
			if r.Bool(pSpread) {
				pos := r.Intn(len(ring) + 1)
				ring = append(ring[:pos], append([]synthPlay{{r.Intn(reg), s}}, ring[pos:]...)...)
			}
		}
		// stragglers: one event per cycle (usually), on top of a random regular head
		for s := reg; s < n; s++ {
			if r.Bool(pStrag) {
				pos := len(ring)
				if r.Bool(0.5) {
					pos = r.Intn(len(ring) + 1)
				}
				ring = append(ring[:pos], append([]synthPlay{{s, r.Intn(reg)}}, ring[pos:]...)...)
			}
		}
		for i := 0; i < len(ring); i++ {
			if r.Bool(pSelf) {
				ring = append(ring[:i+1], append([]synthPlay{{r.Intn(reg), -1}}, ring[i+1:]...)...)
				i++
			}
		}
		plays = append(plays, ring...)
	}
	return plays
}

// splitVotePlays: a history in which the votes on a straggler's witness stay
// split for two rounds, one late witness of the straggler decides its fame at
// distance 3 while everybody else only decides after the coin round (distance
// 5). Built from the theory of virtual voting (who strongly sees whom), with the
// roles of the three regular validators permuted and the pattern embedded at a
// random depth of an otherwise regular history.
func splitVotePlays(r *RNG) []synthPlay {
	pi := r.Perm(3)
	if os.Getenv("SIM_TEMPLATE_EXACT") != "" {
		pi = []int{0, 1, 2}
	}
	m := func(i int) int {
		if i == 3 || i < 0 {
			return i
		}
		return pi[i]
	}
	reg := []synthPlay{{1, 0}, {0, 1}, {2, 1}, {1, 0}, {2, 1}, {0, 2}}
	plays := []synthPlay{{0, -1}, {1, -1}, {2, -1}, {1, 0}, {2, 1}, {0, 2}}
	pre := r.Intn(4)
	if os.Getenv("SIM_TEMPLATE_EXACT") != "" {
		pre = 0
	}
	for k := pre; k >= 0; k-- {
		plays = append(plays, reg...)
	}
	core := []synthPlay{
		{1, -1}, {3, 0}, {1, 0}, // a self-event only the regular witnesses see; the straggler's witness x; next round starts
		{0, 1}, {2, 1}, {1, 0}, {2, 1}, {0, 2},
		{2, 3}, // one regular validator builds on x
		{1, 0}, {0, 1}, {2, 1}, {3, 0}, {1, 0}, {2, 1}, {0, 2},
		{1, 0}, {0, 1}, {0, 3}, {3, 0}, {2, 0}, {1, 0}, {2, 1}, {0, 2},
		{1, 0}, {0, 1}, {2, 1}, {0, 3}, {1, 0}, {3, 1}, // the straggler's late witness: nobody builds on it
		{2, 1}, {0, 2},
	}
	plays = append(plays, core...)
	for k := 6 + r.Intn(4); k >= 0; k-- {
		plays = append(plays, reg...)
	}
	out := make([]synthPlay, len(plays))
	for i, p := range plays {
		out[i] = synthPlay{m(p.creator), m(p.other)}
	}
	return out
}

// A synthetic history is a list of steps: one "synth-init" (N identities) and
// one "synth" step per event (A creator, B other-parent's creator or -1, Tx
// payload, D timestamp increment, Kind "leave": the event carries the
// creator's signed leave request). The list is the replay file's schedule, so
// a synthetic run replays (and minimises) without its generator.

type synthState struct {
	heads []string
	idx   []int
	ts    int64
}

func (c *Cluster) execSynthStep(s *Step) {
	c.stepNo++
	progress.Add(1)
	c.steps = append(c.steps, s)
	switch s.Op {
	case "synth-init":
		for i := 0; i < s.N; i++ {
			c.addIdentity()
		}
		c.genesisSet = append([]*SimNode{}, c.nodes...)
		if s.B > 0 && s.B < s.N {
			// the last N-B identities are applicants, not genesis validators
			c.genesisSet = append([]*SimNode{}, c.nodes[:s.B]...)
		}
		keys := []string{}
		for _, m := range c.genesisSet {
			keys = append(keys, m.pubHex)
		}
		c.vs = newVSModel(keys)
		c.syn = &synthState{heads: make([]string, s.N), idx: make([]int, s.N), ts: 946684800}
		for i := range c.syn.idx {
			c.syn.idx[i] = -1
		}
	case "synth-fair":
		// composite: N cycles of fair gossip - in every cycle every validator
		// creates one event on top of every other validator's head (all ordered
		// pairs) - after which everything created before must be committed (C06)
		st := c.syn
		if st == nil {
			return
		}
		c.synFairFrom = len(c.dag.order)
		c.synFairCycles = s.N
		nv := len(st.heads)
		mk := func(a, b int) {
			op := ""
			if b >= 0 {
				op = st.heads[b]
			}
			st.ts++
			ev := newEvent(c.nodes[a], st.idx[a]+1, st.heads[a], op, nil, nil, nil, st.ts)
			signEvent(ev, c.nodes[a])
			st.heads[a] = ev.Hex()
			st.idx[a]++
			c.dag.add(ev, 0, a)
			c.stats.EventsCreated++
		}
		for a := 0; a < nv; a++ {
			if st.heads[a] == "" {
				mk(a, -1)
			}
		}
		for k := 0; k < s.N; k++ {
			for a := 0; a < nv; a++ {
				for d := 1; d < nv; d++ {
					mk(a, (a+d)%nv)
				}
			}
		}
	case "synth-boot":
		// the history created so far is written to a database by a throw-away
		// instance (insertion + consensus pass per event, as a node does); every
		// identity then becomes a real persistent node bootstrapped from a copy of
		// that database - a network whose members all hold this history and whose
		// earlier lives ended here ("whatever happened before", C06)
		if c.syn == nil || len(c.dag.order) == 0 {
			return
		}
		prep := c.newInstance("prepared-history", "badger", 10000)
		for _, de := range c.dag.order {
			progress.Add(1)
			prep.insert(de)
			// the payload of the history counts as submitted (to its creator's
			// earlier life) for the transaction ledger
			for _, tx := range de.Body.Transactions {
				c.ledger.submitted[string(tx)]++
			}
		}
		prepErr := prep.err
		prepPath := prep.sn.dbPath
		prep.close()
		if prepErr != nil {
			c.stats.probe("prepared-history-insert-error")
			return
		}
		all := []*peers.Peer{}
		for _, m := range c.genesisSet {
			all = append(all, m.peer())
		}
		for _, n := range c.genesisSet {
			n.storeKind = "badger"
			n.cacheSize = 10000
			n.dbPath = filepath.Join(c.workdir, fmt.Sprintf("db-n%d-prepared", n.idx))
			if err := copyDir(prepPath, n.dbPath); err != nil {
				panic(harnessError{"copy prepared db: " + err.Error()})
			}
			os.Remove(filepath.Join(n.dbPath, "LOCK"))
			n.configuredPeers = clonePeers(all)
			n.genesisPeers = clonePeers(all)
			if err := c.startNode(n, true); err != nil {
				panic(harnessError{fmt.Sprintf("bootstrap of node %d from the prepared history: %v", n.idx, err)})
			}
		}
		c.synthetic = false
		c.stats.probe("prepared-history-bootstrapped")
	case "synth":
		st := c.syn
		if st == nil || s.A < 0 || s.A >= len(st.heads) || s.B >= len(st.heads) {
			return
		}
		cr := c.nodes[s.A]
		op := ""
		if s.B >= 0 {
			op = st.heads[s.B]
			if op == "" {
				return // the other side has no event yet
			}
		}
		if st.heads[s.A] == "" && op == "" && st.idx[s.A] >= 0 {
			return
		}
		var txs [][]byte
		if len(s.Tx) > 0 {
			txs = [][]byte{append([]byte{}, s.Tx...)}
		}
		var itxs []hg.InternalTransaction
		if s.Kind == "leave" {
			itx := hg.NewInternalTransactionLeave(*cr.peer())
			itx.Sign(cr.key)
			itxs = []hg.InternalTransaction{itx}
			c.stats.probe("synthetic-leave-request")
		}
		if s.Kind == "join" && s.N >= 0 && s.N < len(c.nodes) {
			// the event carries the join request of applicant N, signed by the applicant
			ap := c.nodes[s.N]
			itx := hg.NewInternalTransactionJoin(*ap.peer())
			itx.Sign(ap.key)
			itxs = []hg.InternalTransaction{itx}
			c.stats.probe("synthetic-join-request")
		}
		st.ts += s.D
		ev := newEvent(cr, st.idx[s.A]+1, st.heads[s.A], op, txs, itxs, nil, st.ts)
		signEvent(ev, cr)
		if s.Kind == "coin0" || s.Kind == "coin1" {
			// grind the payload until the event's hash carries the wanted coin bit
			// (what a validator that wants to prolong an election can do); the step
			// keeps the payload found, so a replay does not grind again
			want := s.Kind == "coin1"
			base := append([]byte{}, s.Tx...)
			for k := 0; k < 20000 && refMiddleBit(ev.Hex()) != want; k++ {
				tx := append(append([]byte{}, base...), []byte(fmt.Sprintf("#%d", k))...)
				ev = newEvent(cr, st.idx[s.A]+1, st.heads[s.A], op, [][]byte{tx}, itxs, nil, st.ts)
				signEvent(ev, cr)
				s.Tx = tx
			}
			if refMiddleBit(ev.Hex()) == want {
				s.Kind = ""
				c.stats.probe("synthetic-coin-bit-ground")
				if !want {
					c.stats.probe("synthetic-coin-bit-ground-false")
				}
			}
		}
		st.heads[s.A] = ev.Hex()
		st.idx[s.A]++
		c.dag.add(ev, 0, s.A)
		c.stats.EventsCreated++
	}
}

// playSteps turns plays into steps, drawing payloads and timestamps.
func (c *Cluster) playSteps(r *RNG, plays []synthPlay) []*Step {
	out := []*Step{}
	for _, p := range plays {
		s := &Step{Op: "synth", A: p.creator, B: p.other, D: int64(r.Intn(3))}
		pTx := 0.35
		if c.synPTx > 0 {
			pTx = c.synPTx
		}
		if r.Bool(pTx) {
			c.synTxn++
			s.Tx = []byte(fmt.Sprintf("synth-%d", c.synTxn))
		}
		out = append(out, s)
	}
	return out
}

// synthRun executes a synthetic run: recorded steps if given, else generated.
func (c *Cluster) synthRun(spec *runSpec) {
	c.synthetic = true
	if spec.Steps != nil {
		for _, s := range spec.Steps {
			cp := *s
			c.execSynthStep(&cp)
		}
	} else {
		c.buildSynthDag(NewRNG(Mix(c.seed, 0x73796e)))
	}
	c.stats.probe("synthetic-dag")
	c.dagReplay(c.cfg.Variants)
}

// buildSynthDag draws a synthetic history and executes its steps.
func (c *Cluster) buildSynthDag(r *RNG) {
	// membership mode has its own stream so that the other modes' histories do
	// not depend on it
	if r2 := NewRNG(Mix(c.seed, 0x6c656176)); r2.Bool(0.2) && os.Getenv("SIM_TEMPLATE_EXACT") == "" {
		c.buildSynthLeaveDag(r2)
		return
	}
	if r3 := NewRNG(Mix(c.seed, 0x64656570)); os.Getenv("SIM_TEMPLATE_EXACT") == "" && (c.cfg.Profile == "C06" || r3.Bool(0.15) || os.Getenv("SIM_DEEP_ONLY") != "") {
		if c.buildSynthDeepDag(r3) {
			return
		}
	}
	n := []int{4, 4, 4, 5, 6, 7}[r.Intn(6)]
	cycles := r.Range(8, 22)
	template := r.Bool(0.3) || os.Getenv("SIM_TEMPLATE_EXACT") != ""
	if template {
		n = 4
	}
	// near-miss search: improve an abstract history until the reference model
	// finds a fragile vote (see refmodel.go)
	var searched []synthPlay
	if !template && r.Bool(0.55) {
		cn := []int{4, 5, 5, 5, 6, 7, 7}[r.Intn(7)]
		var cand []synthPlay
		if r.Bool(0.5) {
			cand = gossipPlays(r, cn, 40+r.Intn(20*cn))
		} else {
			cand = synthPlays(r, cn, r.Range(6, 14))
		}
		sm := refSuperMajority(cn)
		strong := func(f *refFame) bool {
			for _, nr := range f.nears {
				if nr.ss == sm && nr.t == sm-1 {
					return true
				}
			}
			return false
		}
		iters := []int{1500, 5000, 12000}[r.Intn(3)]
		cand, f := climbPlays(r, cn, cand, iters, int(hg.COIN_ROUND_FREQ), strong)
		if len(f.nears) > 0 {
			// an ordinary continuation so that the rounds in question get decided,
			// received and turned into blocks
			cand = append(cand, synthPlays(r, cn, r.Range(4, 8))[cn:]...)
			n, searched = cn, cand
			c.stats.probe("synthetic-near-miss-history")
			if strong(f) {
				c.stats.probe("synthetic-near-miss-history-strong")
			}
			c.stats.probe(fmt.Sprintf("synthetic-near-miss-validators-%d", cn))
		} else {
			c.stats.probe("synthetic-near-miss-search-empty")
		}
	}
	plays := synthPlays(r, n, cycles)
	if template {
		plays = splitVotePlays(r)
		c.stats.probe("synthetic-split-vote-template")
	} else if searched != nil {
		plays = searched
	}
	c.execSynthStep(&Step{Op: "synth-init", N: n})
	for _, s := range c.playSteps(r, plays) {
		c.execSynthStep(s)
	}
}

// ringPlays: every validator gossips with both neighbours, twice per cycle
// (about one round per cycle, everybody strongly sees everybody).
func ringPlays(n, cycles int) []synthPlay {
	out := []synthPlay{}
	for c := 0; c < cycles; c++ {
		for k := 0; k < 2; k++ {
			for i := 0; i < n; i++ {
				a, b := (i+1)%n, i
				if k == 1 {
					a, b = i, (i+n-1)%n
				}
				out = append(out, synthPlay{a, b})
			}
		}
	}
	return out
}

// buildSynthLeaveDag: a history across a shrinking validator set. The last of
// five (or six) validators files its leave request at the very beginning; a
// regular prefix commits it, which fixes the round R at which the smaller set
// becomes effective (read from a throw-away instance). The continuation is
// then improved by local edits until the reference model, with the quorum
// taken from the deciding round's set alone (weakQuorum: what DecideFame did
// before fix "fame quorum across a shrinking set"), finds a decision in the
// first rounds of the smaller set that a lagging node would take the other way.
func (c *Cluster) buildSynthLeaveDag(r *RNG) {
	if r.Bool(0.3) {
		c.buildSynthJoinDag(r)
		return
	}
	n := 5
	if r.Bool(0.2) {
		n = 6
	}
	c.stats.probe("synthetic-leave-history")
	c.execSynthStep(&Step{Op: "synth-init", N: n})
	first := []synthPlay{}
	for i := 0; i < n; i++ {
		first = append(first, synthPlay{i, -1})
	}
	for _, s := range c.playSteps(r, first) {
		c.execSynthStep(s)
	}
	c.execSynthStep(&Step{Op: "synth", A: n - 1, B: 0, D: 1, Kind: "leave"})
	prefix := append(append([]synthPlay{}, first...), synthPlay{n - 1, 0})
	R := -1
	for try := 0; try < 4 && R < 0; try++ {
		more := ringPlays(n, []int{5, 2, 2, 2}[try])
		for _, s := range c.playSteps(r, more) {
			c.execSynthStep(s)
		}
		prefix = append(prefix, more...)
		probe := c.newInstance("probe", "inmem", 10000)
		for _, e := range c.dag.order {
			probe.insert(e)
		}
		if sets, err := probe.h.Store.GetAllPeerSets(); err == nil && probe.err == nil {
			for rr, ps := range sets {
				if len(ps) == n-1 && (R < 0 || rr < R) {
					R = rr
				}
			}
		}
		probe.close()
	}
	if R < 0 {
		c.stats.probe("synthetic-leave-not-committed")
		return
	}
	small := make([]int, n-1)
	for i := range small {
		small[i] = i
	}
	mk := func() *refDag {
		d := newRefDag(n)
		d.deep = true
		d.weakQuorum = true
		d.members = func(rr int) []int {
			if rr >= R {
				return small
			}
			return d.all
		}
		return d
	}
	eval := func(suffix []synthPlay) *refFame {
		d := mk()
		addPlays(d, prefix)
		addPlays(d, suffix)
		return d.computeFame(int(hg.COIN_ROUND_FREQ), nil)
	}
	cur := gossipPlays(r, n, 60+r.Intn(15*n))[n:]
	best := eval(cur)
	iters := []int{3000, 8000, 15000}[r.Intn(3)]
	for it := 0; it < iters && len(best.conflicts) == 0; it++ {
		cand := mutatePlays(r, n, 0, cur)
		if f := eval(cand); f.score >= best.score {
			cur, best = cand, f
		}
	}
	if len(best.weak) > 0 {
		c.stats.probe("synthetic-leave-weak-decision")
	}
	if len(best.conflicts) > 0 {
		c.stats.probe("synthetic-leave-conflict-in-model")
	}
	cur = append(cur, ringPlays(n-1, r.Range(4, 7))...)
	for _, s := range c.playSteps(r, cur) {
		c.execSynthStep(s)
	}
}

// addPlays appends plays to an abstract DAG (same skipping rules as execSynthStep).
func addPlays(d *refDag, plays []synthPlay) {
	if d.heads == nil {
		d.heads = make([]int, d.n)
		for i := range d.heads {
			d.heads[i] = -1
		}
	}
	for _, p := range plays {
		op := -1
		if p.other >= 0 {
			op = d.heads[p.other]
			if op < 0 {
				continue
			}
		}
		if d.heads[p.creator] < 0 && op < 0 && len(d.byCI[p.creator]) > 0 {
			continue
		}
		d.heads[p.creator] = d.add(p.creator, d.heads[p.creator], op, "")
	}
}

// findNears runs the reference model over the record, with the validator sets
// the reference instance derived, and remembers the fragile votes as pairs of
// event hashes (y, z): y holds the lopsided contrary vote (or the decision a
// lagging node would not take), z really decides and does not descend from y.
func (c *Cluster) findNears(ref *instance) {
	cid := map[string]int{}
	for i, m := range c.nodes {
		if m.idx < 1000 {
			cid[m.pubHex] = i
		}
	}
	for _, e := range c.dag.order {
		if _, ok := cid[e.Creator]; !ok {
			// an event of somebody the harness does not know as an identity
			c.refDag, c.refFame, c.synthNears = nil, nil, nil
			return
		}
	}
	d := newRefDag(len(cid))
	d.deep = true
	if len(c.genesisSet) < len(cid) {
		// applicants are not members until the reference instance says so
		d.all = d.all[:len(c.genesisSet)]
	}
	if sets, err := ref.h.Store.GetAllPeerSets(); err == nil && len(sets) > 1 {
		rounds := []int{}
		byRound := map[int][]int{}
		for rr, ps := range sets {
			rounds = append(rounds, rr)
			ids := []int{}
			for _, p := range ps {
				if id, ok := cid[p.PubKeyString()]; ok {
					ids = append(ids, id)
				}
			}
			sort.Ints(ids)
			byRound[rr] = ids
		}
		sort.Ints(rounds)
		d.members = func(r int) []int {
			cur := d.all
			for _, rr := range rounds {
				if rr <= r {
					cur = byRound[rr]
				}
			}
			return cur
		}
	}
	ids := map[string]int{}
	for _, e := range c.dag.topoOrder() {
		sp, op := -1, -1
		if e.SelfP != "" {
			v, ok := ids[e.SelfP]
			if !ok {
				c.refDag, c.refFame, c.synthNears = nil, nil, nil
				return
			}
			sp = v
		}
		if e.OtherP != "" {
			v, ok := ids[e.OtherP]
			if !ok {
				c.refDag, c.refFame, c.synthNears = nil, nil, nil
				return
			}
			op = v
		}
		ids[e.Hash] = d.add(cid[e.Creator], sp, op, e.Hash)
	}
	f := d.computeFame(int(hg.COIN_ROUND_FREQ), nil)
	c.refDag, c.refFame = d, f
	c.synthNears = nil
	conflicts := f.conflicts
	if d.members != nil {
		// where would a quorum taken from the deciding round's set alone go wrong?
		d.weakQuorum = true
		conflicts = append(conflicts, d.computeFame(int(hg.COIN_ROUND_FREQ), nil).conflicts...)
		d.weakQuorum = false
	}
	for _, cf := range conflicts {
		c.synthNears = append(c.synthNears, [2]string{d.hash[cf[1]], d.hash[cf[2]]})
		c.stats.probe("synthetic-conflicting-decisions-in-model")
	}
	nears := append([]refNear{}, f.nears...)
	sort.SliceStable(nears, func(i, j int) bool { return nears[i].strength() > nears[j].strength() })
	for _, nr := range nears {
		c.synthNears = append(c.synthNears, [2]string{d.hash[nr.y], d.hash[nr.z]})
	}
}

// prioritised: a valid order that inserts the ancestors of target (and target)
// first, everything else afterwards (a node that learns about target as early
// as possible and about the rest late).
func (d *DagRecord) prioritised(r *RNG, base []*DagEvent, target string) []*DagEvent {
	first := map[string]bool{}
	var add func(h string)
	add = func(h string) {
		e := d.events[h]
		if e == nil || first[h] {
			return
		}
		first[h] = true
		add(e.SelfP)
		add(e.OtherP)
	}
	add(target)
	out := d.randomTopo(r, base, first)
	rest := d.randomTopo(r, base, nil)
	for _, e := range rest {
		if !first[e.Hash] {
			out = append(out, e)
		}
	}
	return out
}

// delayedOrder: a valid order in which a few events are pushed as late as
// their descendants allow (a node that learns about them late).
func (d *DagRecord) delayedOrder(r *RNG, base []*DagEvent) []*DagEvent {
	order := d.randomTopo(r, base, nil)
	k := 1 + r.Intn(3)
	for ; k > 0; k-- {
		// prefer events of the least active creators (stragglers) and late events
		cnt := map[string]int{}
		for _, e := range order {
			cnt[e.Creator]++
		}
		min := ""
		for cr, v := range cnt {
			if min == "" || v < cnt[min] || (v == cnt[min] && cr < min) {
				min = cr
			}
		}
		cands := []int{}
		for i, e := range order {
			if e.Creator == min || r.Bool(0.05) {
				cands = append(cands, i)
			}
		}
		if len(cands) == 0 {
			continue
		}
		i := cands[r.Intn(len(cands))]
		if r.Bool(0.5) {
			// the last event of the least active creator
			for t := len(order) - 1; t >= 0; t-- {
				if order[t].Creator == min {
					i = t
					break
				}
			}
		}
		e := order[i]
		// latest position: just before its first child
		j := len(order)
		for t := i + 1; t < len(order); t++ {
			if order[t].SelfP == e.Hash || order[t].OtherP == e.Hash {
				j = t
				break
			}
		}
		// optionally only part of the way
		if r.Bool(0.3) && j > i+1 {
			j = i + 1 + r.Intn(j-i-1)
		}
		moved := append([]*DagEvent{}, order[:i]...)
		moved = append(moved, order[i+1:j]...)
		moved = append(moved, e)
		moved = append(moved, order[j:]...)
		order = moved
	}
	return order
}

var _ = hg.ROOT_DEPTH

// buildSynthJoinDag: a history across a growing validator set (4 -> 5, 3 -> 4,
// 6 -> 7). An early event of validator 0 carries the applicant's join request; a
// regular prefix among the old validators commits it, which fixes the round R
// of the larger set; in the continuation the applicant takes part. The
// continuation is improved towards fragile votes as in the static case, the
// reference model now using the per-round sets.
func (c *Cluster) buildSynthJoinDag(r *RNG) {
	old := []int{3, 4, 4, 4, 6}[r.Intn(5)]
	n := old + 1
	c.stats.probe("synthetic-join-history")
	c.execSynthStep(&Step{Op: "synth-init", N: n, B: old})
	first := []synthPlay{}
	for i := 0; i < old; i++ {
		first = append(first, synthPlay{i, -1})
	}
	for _, s := range c.playSteps(r, first) {
		c.execSynthStep(s)
	}
	c.execSynthStep(&Step{Op: "synth", A: 0, B: 1, D: 1, Kind: "join", N: old})
	prefix := append(append([]synthPlay{}, first...), synthPlay{0, 1})
	R := -1
	for try := 0; try < 4 && R < 0; try++ {
		more := ringPlays(old, []int{5, 2, 2, 2}[try])
		for _, s := range c.playSteps(r, more) {
			c.execSynthStep(s)
		}
		prefix = append(prefix, more...)
		probe := c.newInstance("probe", "inmem", 10000)
		for _, e := range c.dag.order {
			probe.insert(e)
		}
		if sets, err := probe.h.Store.GetAllPeerSets(); err == nil && probe.err == nil {
			for rr, ps := range sets {
				if len(ps) == n && (R < 0 || rr < R) {
					R = rr
				}
			}
		}
		probe.close()
	}
	if R < 0 {
		c.stats.probe("synthetic-join-not-committed")
		return
	}
	small := make([]int, old)
	for i := range small {
		small[i] = i
	}
	eval := func(suffix []synthPlay) *refFame {
		d := newRefDag(n)
		all := d.all
		d.members = func(rr int) []int {
			if rr >= R {
				return all
			}
			return small
		}
		addPlays(d, prefix)
		addPlays(d, suffix)
		return d.computeFame(int(hg.COIN_ROUND_FREQ), nil)
	}
	cur := gossipPlays(r, n, 60+r.Intn(15*n))[n:]
	best := eval(cur)
	iters := []int{1500, 4000, 8000}[r.Intn(3)]
	for it := 0; it < iters; it++ {
		cand := mutatePlays(r, n, 0, cur)
		if f := eval(cand); f.score >= best.score {
			cur, best = cand, f
		}
	}
	if len(best.nears) > 0 {
		c.stats.probe("synthetic-join-near-miss")
	}
	cur = append(cur, ringPlays(n, r.Range(4, 7))...)
	for _, s := range c.playSteps(r, cur) {
		c.execSynthStep(s)
	}
}

// deepFairCycles: all-pairs cycles appended to a deep-election history. Once
// every validator strongly sees every witness of the previous round all votes
// of a normal round are equal and the next normal round decides: the
// algorithm needs two to four rounds, i.e. about as many cycles.
const deepFairCycles = 12

// buildSynthDeepDag: a history in which one election stays undecided through
// one or two coin rounds (found with the reference model under an adversarial
// coin, realised by grinding the coin bits), followed by fair gossip among
// all validators. false: the search found nothing deep enough.
func (c *Cluster) buildSynthDeepDag(r *RNG) bool { return c.buildSynthDeep(r, true) }

func (c *Cluster) buildSynthDeep(r *RNG, fair bool) bool {
	n := []int{4, 4, 4, 5, 5, 6}[r.Intn(6)]
	want := []int{5, 6, 7, 9, 9, 10, 11}[r.Intn(7)]
	var base []synthPlay
	switch r.Intn(3) {
	case 0:
		base = synthPlays(r, n, r.Range(12, 18))
	case 1:
		base = gossipPlays(r, n, r.Range(30, 45)*n)
	default:
		if n == 4 {
			base = splitVotePlays(r)
		} else {
			base = synthPlays(r, n, r.Range(14, 20))
		}
	}
	plays, res := climbDeep(r, n, base, 12000, int(hg.COIN_ROUND_FREQ), want)
	if res.last < 5 {
		c.stats.probe("synthetic-deep-search-empty")
		return false
	}
	if !fair && res.dist > 0 {
		// the history is to end while the election is still open: cut it back
		for cut := len(plays) - 1; cut > n+10; cut -= 2 {
			dd, _ := refFromPlays(n, plays[:cut])
			if rr := dd.deepElection(int(hg.COIN_ROUND_FREQ)); rr.dist == 0 && rr.last >= 4 {
				plays = plays[:cut]
				break
			}
		}
	}
	d, ids := refFromPlays(n, plays)
	res = d.deepElection(int(hg.COIN_ROUND_FREQ))
	if res.dist == 0 {
		c.stats.probe("synthetic-deep-election-open-at-the-tail")
	}
	c.stats.probe("synthetic-deep-election-history")
	c.stats.probeMax("synthetic-deep-election-undecided-distance-model", res.last)
	c.execSynthStep(&Step{Op: "synth-init", N: n})
	steps := c.playSteps(r, plays)
	for i, s := range steps {
		if ids[i] >= 0 {
			if b, ok := res.bits[ids[i]]; ok {
				s.Kind = "coin0"
				if b {
					s.Kind = "coin1"
				}
				if len(s.Tx) == 0 {
					c.synTxn++
					s.Tx = []byte(fmt.Sprintf("synth-%d", c.synTxn))
				}
			}
		}
		c.execSynthStep(s)
	}
	if fair {
		c.execSynthStep(&Step{Op: "synth-fair", N: deepFairCycles})
	}
	return true
}

// preparedRun (C06): real persistent nodes bootstrap from a database that
// holds a synthetic history - a deep election still open at the tail while
// later rounds are decided, payload events waiting behind it - and then run the
// fair suffix with real gossip; the usual C06 oracle decides.
func (c *Cluster) preparedRun(spec *runSpec) {
	c.finalHook = c.checkC06
	if spec.Steps != nil {
		for _, s := range spec.Steps {
			cp := *s
			if strings.HasPrefix(cp.Op, "synth") {
				c.execSynthStep(&cp)
			} else {
				c.exec(&cp)
			}
			if c.syn != nil && len(c.steps) > 0 && c.stopNow(spec) {
				break
			}
		}
	} else {
		r := NewRNG(Mix(c.seed, 0x70726570))
		// payload is rare in most of these histories: the events still waiting at
		// the tail then all lie behind (not before) the open election
		c.synPTx = []float64{0.02, 0.05, 0.1, 0.35}[r.Intn(4)]
		if !c.buildSynthDeep(r, false) {
			n := []int{4, 4, 5}[r.Intn(3)]
			c.execSynthStep(&Step{Op: "synth-init", N: n})
			for _, s := range c.playSteps(r, synthPlays(r, n, r.Range(6, 14))) {
				c.execSynthStep(s)
			}
		}
		c.execSynthStep(&Step{Op: "synth-boot"})
		if c.stats.Probes["prepared-history-bootstrapped"] > 0 {
			c.fairSuffix(spec)
		}
	}
	if c.stats.Probes["prepared-history-bootstrapped"] > 0 {
		c.finalChecks(spec)
	}
}

package sim

import (
	"fmt"
	"os"
	"sort"

	hg "github.com/mosaicnetworks/babble/src/hashgraph"
)

/*******************************************************************************
Synthetic gossip histories at DAG level (E2 input): a ring of regular
validators whose witnesses strongly see each other round after round, plus
stragglers that take part once in a while, so that votes on the stragglers'
witnesses are split and fame decisions slide to distance 3, the coin round and
beyond. The DAG is then fed to independent instances in different valid orders
(two honest nodes with different views of the same history).
*******************************************************************************/

type synthPlay struct {
	creator int
	other   int // -1: no other-parent
}

// synthPlays draws a play list: who creates an event on top of whose head.
func synthPlays(r *RNG, n, cycles int) []synthPlay {
	nStrag := 1
	if n >= 6 && r.Bool(0.5) {
		nStrag = 2
	}
	reg := n - nStrag
	plays := []synthPlay{}
	// first events
	for i := 0; i < reg; i++ {
		plays = append(plays, synthPlay{i, -1})
	}
	pSpread := []float64{0.3, 0.5, 0.7, 0.9}[r.Intn(4)]
	pSelf := 0.04 * r.Float()
	pStrag := []float64{0.2, 0.4, 0.7, 0.9, 1.0}[r.Intn(5)]
	for c := 0; c < cycles; c++ {
		var ring []synthPlay
		if reg == 3 {
			// one round per cycle: every new witness strongly sees exactly the
			// three regular witnesses of the previous round
			ring = []synthPlay{{1, 0}, {0, 1}, {2, 1}, {1, 0}, {2, 1}, {0, 2}}
		} else {
			for k := 0; k < 2; k++ {
				for i := 0; i < reg; i++ {
					a := (i + 1) % reg
					b := i
					if k == 1 {
						a, b = i, (i+reg-1)%reg
					}
					if a != b {
						ring = append(ring, synthPlay{a, b})
					}
				}
			}
		}
		// at most one regular validator per straggler builds on the straggler's
		// head in a cycle (its events spread slowly and unevenly)
		for s := reg; s < n; s++ {
			if r.Bool(pSpread) {
				pos := r.Intn(len(ring) + 1)
				ring = append(ring[:pos], append([]synthPlay{{r.Intn(reg), s}}, ring[pos:]...)...)
			}
		}
		// stragglers: one event per cycle (usually), on top of a random regular head
		for s := reg; s < n; s++ {
			if r.Bool(pStrag) {
				pos := len(ring)
				if r.Bool(0.5) {
					pos = r.Intn(len(ring) + 1)
				}
				ring = append(ring[:pos], append([]synthPlay{{s, r.Intn(reg)}}, ring[pos:]...)...)
			}
		}
		for i := 0; i < len(ring); i++ {
			if r.Bool(pSelf) {
				ring = append(ring[:i+1], append([]synthPlay{{r.Intn(reg), -1}}, ring[i+1:]...)...)
				i++
			}
		}
		plays = append(plays, ring...)
	}
	return plays
}

// splitVotePlays: a history in which the votes on a straggler's witness stay
// split for two rounds, one late witness of the straggler decides its fame at
// distance 3 while everybody else only decides after the coin round (distance
// 5). Built from the theory of virtual voting (who strongly sees whom), with the
// roles of the three regular validators permuted and the pattern embedded at a
// random depth of an otherwise regular history.
func splitVotePlays(r *RNG) []synthPlay {
	pi := r.Perm(3)
	if os.Getenv("SIM_TEMPLATE_EXACT") != "" {
		pi = []int{0, 1, 2}
	}
	m := func(i int) int {
		if i == 3 || i < 0 {
			return i
		}
		return pi[i]
	}
	reg := []synthPlay{{1, 0}, {0, 1}, {2, 1}, {1, 0}, {2, 1}, {0, 2}}
	plays := []synthPlay{{0, -1}, {1, -1}, {2, -1}, {1, 0}, {2, 1}, {0, 2}}
	pre := r.Intn(4)
	if os.Getenv("SIM_TEMPLATE_EXACT") != "" {
		pre = 0
	}
	for k := pre; k >= 0; k-- {
		plays = append(plays, reg...)
	}
	core := []synthPlay{
		{1, -1}, {3, 0}, {1, 0}, // a self-event only the regular witnesses see; the straggler's witness x; next round starts
		{0, 1}, {2, 1}, {1, 0}, {2, 1}, {0, 2},
		{2, 3}, // one regular validator builds on x
		{1, 0}, {0, 1}, {2, 1}, {3, 0}, {1, 0}, {2, 1}, {0, 2},
		{1, 0}, {0, 1}, {0, 3}, {3, 0}, {2, 0}, {1, 0}, {2, 1}, {0, 2},
		{1, 0}, {0, 1}, {2, 1}, {0, 3}, {1, 0}, {3, 1}, // the straggler's late witness: nobody builds on it
		{2, 1}, {0, 2},
	}
	plays = append(plays, core...)
	for k := 6 + r.Intn(4); k >= 0; k-- {
		plays = append(plays, reg...)
	}
	out := make([]synthPlay, len(plays))
	for i, p := range plays {
		out[i] = synthPlay{m(p.creator), m(p.other)}
	}
	return out
}

// buildSynthDag creates identities, signs the events of a play list and fills
// the DAG record.
func (c *Cluster) buildSynthDag(r *RNG) {
	n := []int{4, 4, 4, 5, 6, 7}[r.Intn(6)]
	cycles := r.Range(8, 22)
	template := r.Bool(0.3) || os.Getenv("SIM_TEMPLATE_EXACT") != ""
	if template {
		n = 4
	}
	// near-miss search: draw abstract histories until the reference model finds
	// one with a fragile vote (see refmodel.go)
	var searched []synthPlay
	if !template && r.Bool(0.55) {
		cn := []int{4, 5, 5, 5, 6, 7, 7}[r.Intn(7)]
		var cand []synthPlay
		if r.Bool(0.5) {
			cand = gossipPlays(r, cn, 40+r.Intn(20*cn))
		} else {
			cand = synthPlays(r, cn, r.Range(6, 14))
		}
		sm := refSuperMajority(cn)
		strong := func(f *refFame) bool {
			for _, nr := range f.nears {
				if nr.ss == sm && nr.t == sm-1 {
					return true
				}
			}
			return false
		}
		iters := []int{1500, 5000, 12000}[r.Intn(3)]
		cand, f := climbPlays(r, cn, cand, iters, int(hg.COIN_ROUND_FREQ), strong)
		if len(f.nears) > 0 {
			// an ordinary continuation so that the rounds in question get decided,
			// received and turned into blocks
			cand = append(cand, synthPlays(r, cn, r.Range(4, 8))[cn:]...)
			n, searched = cn, cand
			c.stats.probe("synthetic-near-miss-history")
			if strong(f) {
				c.stats.probe("synthetic-near-miss-history-strong")
			}
			c.stats.probe(fmt.Sprintf("synthetic-near-miss-validators-%d", cn))
		} else {
			c.stats.probe("synthetic-near-miss-search-empty")
		}
	}
	for i := 0; i < n; i++ {
		c.addIdentity()
	}
	c.genesisSet = append([]*SimNode{}, c.nodes...)
	keys := []string{}
	for _, m := range c.genesisSet {
		keys = append(keys, m.pubHex)
	}
	c.vs = newVSModel(keys)
	heads := make([]string, n)
	idx := make([]int, n)
	for i := range idx {
		idx[i] = -1
	}
	ts := int64(946684800)
	txn := 0
	plays := synthPlays(r, n, cycles)
	if template {
		plays = splitVotePlays(r)
		c.stats.probe("synthetic-split-vote-template")
	} else if searched != nil {
		plays = searched
	}
	for _, p := range plays {
		cr := c.nodes[p.creator]
		op := ""
		if p.other >= 0 {
			op = heads[p.other]
			if op == "" {
				continue // the other side has no event yet
			}
		}
		if heads[p.creator] == "" && op == "" && idx[p.creator] >= 0 {
			continue
		}
		var txs [][]byte
		if r.Bool(0.35) {
			txn++
			txs = [][]byte{[]byte(fmt.Sprintf("synth-%d", txn))}
		}
		ts += int64(r.Intn(3))
		ev := newEvent(cr, idx[p.creator]+1, heads[p.creator], op, txs, nil, nil, ts)
		signEvent(ev, cr)
		heads[p.creator] = ev.Hex()
		idx[p.creator]++
		c.dag.add(ev, 0, p.creator)
		c.stats.EventsCreated++
	}
	c.stats.probe("synthetic-dag")
	c.findNears()
}

// findNears runs the reference model over the record (static validator set)
// and remembers the fragile votes as pairs of event hashes (y, z): y holds the
// lopsided contrary vote, z really decides and does not descend from y.
func (c *Cluster) findNears() {
	cid := map[string]int{}
	for i, m := range c.genesisSet {
		cid[m.pubHex] = i
	}
	d := newRefDag(len(c.genesisSet))
	ids := map[string]int{}
	for _, e := range c.dag.order {
		sp, op := -1, -1
		if e.SelfP != "" {
			sp = ids[e.SelfP]
		}
		if e.OtherP != "" {
			op = ids[e.OtherP]
		}
		ids[e.Hash] = d.add(cid[e.Creator], sp, op, e.Hash)
	}
	f := d.computeFame(int(hg.COIN_ROUND_FREQ), nil)
	c.refDag, c.refFame = d, f
	nears := append([]refNear{}, f.nears...)
	sort.SliceStable(nears, func(i, j int) bool { return nears[i].strength() > nears[j].strength() })
	for _, nr := range nears {
		c.synthNears = append(c.synthNears, [2]string{d.hash[nr.y], d.hash[nr.z]})
	}
}

// prioritised: a valid order that inserts the ancestors of target (and target)
// first, everything else afterwards (a node that learns about target as early
// as possible and about the rest late).
func (d *DagRecord) prioritised(r *RNG, base []*DagEvent, target string) []*DagEvent {
	first := map[string]bool{}
	var add func(h string)
	add = func(h string) {
		e := d.events[h]
		if e == nil || first[h] {
			return
		}
		first[h] = true
		add(e.SelfP)
		add(e.OtherP)
	}
	add(target)
	out := d.randomTopo(r, base, first)
	rest := d.randomTopo(r, base, nil)
	for _, e := range rest {
		if !first[e.Hash] {
			out = append(out, e)
		}
	}
	return out
}

// delayedOrder: a valid order in which a few events are pushed as late as
// their descendants allow (a node that learns about them late).
func (d *DagRecord) delayedOrder(r *RNG, base []*DagEvent) []*DagEvent {
	order := d.randomTopo(r, base, nil)
	k := 1 + r.Intn(3)
	for ; k > 0; k-- {
		// prefer events of the least active creators (stragglers) and late events
		cnt := map[string]int{}
		for _, e := range order {
			cnt[e.Creator]++
		}
		min := ""
		for cr, v := range cnt {
			if min == "" || v < cnt[min] || (v == cnt[min] && cr < min) {
				min = cr
			}
		}
		cands := []int{}
		for i, e := range order {
			if e.Creator == min || r.Bool(0.05) {
				cands = append(cands, i)
			}
		}
		if len(cands) == 0 {
			continue
		}
		i := cands[r.Intn(len(cands))]
		if r.Bool(0.5) {
			// the last event of the least active creator
			for t := len(order) - 1; t >= 0; t-- {
				if order[t].Creator == min {
					i = t
					break
				}
			}
		}
		e := order[i]
		// latest position: just before its first child
		j := len(order)
		for t := i + 1; t < len(order); t++ {
			if order[t].SelfP == e.Hash || order[t].OtherP == e.Hash {
				j = t
				break
			}
		}
		// optionally only part of the way
		if r.Bool(0.3) && j > i+1 {
			j = i + 1 + r.Intn(j-i-1)
		}
		moved := append([]*DagEvent{}, order[:i]...)
		moved = append(moved, order[i+1:j]...)
		moved = append(moved, e)
		moved = append(moved, order[j:]...)
		order = moved
	}
	return order
}

var _ = hg.ROOT_DEPTH

package sim

import (
	"fmt"
	"io"
	"os"
	"path/filepath"
	"sort"
	"strings"

	"github.com/mosaicnetworks/babble/src/config"
	hg "github.com/mosaicnetworks/babble/src/hashgraph"
	"github.com/mosaicnetworks/babble/src/node"
	_state "github.com/mosaicnetworks/babble/src/node/state"
	"github.com/mosaicnetworks/babble/src/peers"
)

func copyDir(src, dst string) error {
	if err := os.MkdirAll(dst, 0o755); err != nil {
		return err
	}
	ents, err := os.ReadDir(src)
	if err != nil {
		return err
	}
	for _, e := range ents {
		if e.IsDir() || e.Name() == "LOCK" {
			continue
		}
		in, err := os.Open(filepath.Join(src, e.Name()))
		if err != nil {
			return err
		}
		out, err := os.Create(filepath.Join(dst, e.Name()))
		if err != nil {
			in.Close()
			return err
		}
		_, err = io.Copy(out, in)
		in.Close()
		out.Close()
		if err != nil {
			return err
		}
	}
	return nil
}

func vlogSize(dir string) (string, int64) {
	ents, _ := os.ReadDir(dir)
	names := []string{}
	for _, e := range ents {
		if strings.HasSuffix(e.Name(), ".vlog") {
			names = append(names, e.Name())
		}
	}
	if len(names) == 0 {
		return "", 0
	}
	sort.Strings(names)
	last := names[len(names)-1]
	st, err := os.Stat(filepath.Join(dir, last))
	if err != nil {
		return last, 0
	}
	return last, st.Size()
}

// storeHook is called around every Badger commit of every persistent node.
func (c *Cluster) storeHook(path, kind, phase string) error {
	n := c.byPath[path]
	if n == nil || c.inShadow || n.crashed || n.constructing {
		return nil
	}
	if phase == "pre" {
		_, n.preVlog = vlogSize(path)
	}
	n.storePoints++
	c.stats.probe("store-point")
	if n.maintenance && phase == "pre" {
		if kind == "event" || kind == "block" {
			c.violate("C17", "non-babbling-untouched", "maintenance-node-wrote-"+kind, "node %d runs in maintenance mode and wrote a %s record to its database (step %d)", n.idx, kind, c.stepNo)
		} else {
			c.stats.probe("maintenance-node-wrote-" + kind)
		}
	}
	if c.storePointHook != nil {
		c.storePointHook(n, kind, phase)
	}
	if phase == "pre" && kind == "frame" && c.cfg.PFrameErr > 0 && !c.fairMode && n.running() && n.state() == _state.Babbling && c.inner.Bool(c.cfg.PFrameErr) {
		// transient error while the frame of a decided round is written: the
		// consensus pass gives up before it has touched anything else of that
		// round, and the next pass finds the frame in the cache and goes on
		c.stats.fault("frame-write-error")
		return fmt.Errorf("injected write error (frame)")
	}
	if phase == "pre" && c.cfg.PStoreErr > 0 && !c.fairMode && c.inner.Bool(c.cfg.PStoreErr) {
		// transient write error (full disk, I/O error): this commit fails, the
		// node keeps running
		n.storeErrSeen = true
		c.stats.fault("store-write-error")
		return fmt.Errorf("injected write error (%s)", kind)
	}
	if phase == "post" {
		if kind == "event" {
			n.eventRun++
		} else {
			n.eventRun = 0
		}
		if n.armEventRun > 0 && kind == "event" && n.eventRun == n.armEventRun {
			n.armEventRun = 0
			n.eventRun = 0
			c.stats.probe("crash-between-ancestor-updates")
			c.killAt(n, kind, phase, 0)
		}
	}
	if n.armBlockPre && kind == "block" && phase == "pre" {
		n.armBlockPre = false
		c.stats.probe("crash-before-block-write")
		c.killAt(n, kind, phase, 0)
	}
	if n.armCrashAt > 0 && n.storePoints >= n.armCrashAt {
		n.armCrashAt = 0
		torn := n.armTorn
		n.armTorn = 0
		c.killAt(n, kind, phase, torn)
	}
	return nil
}

// killAt takes the SIGKILL image of the node's database directory at the
// current instant and aborts the node.
func (c *Cluster) killAt(n *SimNode, kind, phase string, torn float64) {
	img := filepath.Join(c.workdir, fmt.Sprintf("img-n%d-e%d", n.idx, n.epoch))
	if err := copyDir(n.dbPath, img); err != nil {
		panic(harnessError{"copy db: " + err.Error()})
	}
	c.stats.fault("crash-" + phase)
	if kind == "event" {
		c.stats.probe("crash-inside-insertion")
	}
	if torn > 0 && phase == "post" {
		name, now := vlogSize(img)
		if name != "" && now > n.preVlog+1 {
			cut := n.preVlog + 1 + int64(torn*float64(now-n.preVlog-1))
			if cut >= now {
				cut = now - 1
			}
			if err := os.Truncate(filepath.Join(img, name), cut); err == nil {
				c.stats.fault("torn-tail")
				if n.preVlog == n.vlogAtOpen {
					n.wipeExpected = true
					c.stats.probe("torn-first-write-after-clean-reopen")
				}
			}
		}
	}
	n.crashImage = img
	panic(crashSentinel{n})
}

// finishCrash is called once the stack of the killed node has been unwound.
func (c *Cluster) finishCrash(n *SimNode) {
	c.closeWire(n)
	if n.crashed {
		return
	}
	n.crashed = true
	c.stats.probe("node-killed")
	old := n.store
	oldPath := n.dbPath
	// whatever was still pending in its pools is lost with the process
	n.lostTxs = append(n.lostTxs, n.pendingPoolSnapshot()...)
	func() {
		defer func() { recover() }()
		if old != nil {
			old.Close()
		}
	}()
	delete(c.byPath, oldPath)
	if n.storeKind != "badger" {
		n.dead = true
		n.node = nil
		return
	}
	if n.crashImage == "" {
		img := filepath.Join(c.workdir, fmt.Sprintf("img-n%d-e%d", n.idx, n.epoch))
		if err := copyDir(oldPath, img); err != nil {
			panic(harnessError{"copy db: " + err.Error()})
		}
		n.crashImage = img
	}
	os.RemoveAll(oldPath)
	n.dbPath = n.crashImage
	n.crashImage = ""
	n.knownAtCrash = n.lastKnown
	n.node = nil
	if n.ffDone {
		// bootstrap is documented to work from 0 only
		n.dead = true
	}
}

func (n *SimNode) pendingPoolSnapshot() [][]byte {
	defer func() { recover() }()
	if n.node == nil {
		return nil
	}
	return n.core().TransactionPool()
}

// opCrash: kill now (between operations), or arm a kill at the k-th store
// point from now.
func (c *Cluster) opCrash(s *Step) {
	n := c.nodeAt(s.A)
	if n == nil || !n.running() {
		return
	}
	if s.Kind == "in-event-run" {
		if n.storeKind != "badger" {
			return
		}
		n.armEventRun = maxInt(s.N, 2)
		return
	}
	if s.Kind == "before-block-write" {
		// directed: the next time this node is about to write a block record (the
		// first write of a new block, its second write with the commit response,
		// or the rewrite of an older block whose late signature just arrived in a
		// stored event)
		if n.storeKind != "badger" {
			return
		}
		n.armBlockPre = true
		return
	}
	if s.Kind == "at" {
		if n.storeKind != "badger" {
			return
		}
		n.armCrashAt = n.storePoints + maxInt(s.N, 1)
		n.armTorn = s.F
		return
	}
	// kill between operations: the image is whatever has been committed
	if n.storeKind == "badger" {
		img := filepath.Join(c.workdir, fmt.Sprintf("img-n%d-e%d", n.idx, n.epoch))
		if err := copyDir(n.dbPath, img); err != nil {
			panic(harnessError{"copy db: " + err.Error()})
		}
		n.crashImage = img
	}
	c.stats.fault("crash-between-ops")
	// unwind parked tasks of this incarnation: they die with the process
	c.finishCrash(n)
}

func (c *Cluster) opRestart(s *Step) {
	n := c.nodeAt(s.A)
	if n == nil || !n.crashed || n.dead || n.storeKind != "badger" {
		return
	}
	c.restartFromDisk(n)
}

func (c *Cluster) restartFromDisk(n *SimNode) {
	prevEpoch := n.epoch
	n.epoch++
	n.armCrashAt = 0
	n.armBlockPre = false
	n.armEventRun = 0
	n.eventRun = 0
	c.newSegment(n, -1)
	if err := c.startNode(n, true); err != nil {
		key := "bootstrap-error"
		if n.wipeExpected {
			key = "torn-first-write-after-clean-reopen-wipes-value-log"
		}
		prop := "C11"
		if c.cfg.Profile == "C08" && !n.wipeExpected {
			// after hostile network input the node can no longer be restarted
			prop = "C08"
			key = "cannot-restart-after-hostile-input"
		}
		c.violate(prop, "restart", key, "node %d: restart with bootstrap failed: %v", n.idx, err)
		n.crashed = true
		n.dead = true
		n.node = nil
		return
	}
	c.stats.probe("restart-bootstrap")
	delete(c.dag.harvest, n.idx)
	nviol := len(c.violations)
	c.checkRecovery(n, n, prevEpoch, n.knownAtCrash, nil)
	if (c.cfg.Profile == "C07" || c.cfg.Profile == "C08") && !n.wipeExpected {
		// in the hostile-input profiles a recovery failure is a consequence of the inputs
		for _, v := range c.violations[nviol:] {
			if v.Property == "C11" {
				v.Property = c.cfg.Profile
				v.Key = "recovery-broken-after-hostile-input:" + v.Key
			}
		}
	}
	if n.wipeExpected {
		for _, v := range c.violations[nviol:] {
			if v.Property == "C11" {
				v.Key = "torn-first-write-after-clean-reopen-wipes-value-log"
			}
		}
		// the node has lost its history: it is no longer a full-history node
		n.wipeExpected = false
		n.wiped = true
		// it would now re-create events at heights it already used; take it out
		func() {
			defer func() { recover() }()
			n.node.Shutdown()
		}()
		delete(c.byPath, n.dbPath)
		n.dead = true
		n.crashed = true
		n.node = nil
	}
}

// opCleanRestart: Shutdown(), then reopen with bootstrap.
func (c *Cluster) opCleanRestart(s *Step) {
	n := c.nodeAt(s.A)
	if n == nil || !n.running() || n.storeKind != "badger" || n.ffDone {
		return
	}
	if n.task != nil && !n.task.done {
		return
	}
	if n.state() == _state.Shutdown {
		return
	}
	c.drainTasksOf(n)
	if !n.running() {
		return
	}
	n.knownAtCrash = n.core().KnownEvents()
	n.lostTxs = append(n.lostTxs, n.pendingPoolSnapshot()...)
	n.node.Shutdown()
	delete(c.byPath, n.dbPath)
	n.crashed = true
	n.node = nil
	c.stats.fault("clean-restart")
	c.restartFromDisk(n)
}

// checkRecovery is the C11 oracle evaluated on a node (real or shadow) that
// has just bootstrapped from the database of victim.
//   - every block delivered by the victim before the kill is re-delivered,
//     identical (canonical digest including state hash)
//   - completed ⊆ known-after-bootstrap ⊆ upper bound
//   - head / seq restored to the highest own event known after bootstrap
func (c *Cluster) checkRecovery(victim, boot *SimNode, prevEpoch int, completed map[uint32]int, upper map[uint32]int) {
	tag := "restart"
	if boot != victim {
		tag = "shadow"
	}
	before := map[int]string{}
	maxBefore := -1
	for _, d := range victim.app.log {
		if d.Shadow || d.Epoch > prevEpoch {
			continue
		}
		// all earlier incarnations started from 0 (no fast-forwarded node is bootstrapped)
		before[d.Block.Index()] = d.Digest
		if d.Block.Index() > maxBefore {
			maxBefore = d.Block.Index()
		}
	}
	after := map[int]string{}
	for _, d := range boot.app.log {
		if boot == victim && d.Epoch != victim.epoch {
			continue
		}
		after[d.Block.Index()] = d.Digest
	}
	for i := 0; i <= maxBefore; i++ {
		b, ok := before[i]
		if !ok {
			continue
		}
		a, ok := after[i]
		if !ok {
			c.violate("C11", "redelivery", "block-not-redelivered", "node %d (%s): block %d was delivered before the kill but not re-delivered by bootstrap (re-delivered %d blocks, %d before)", victim.idx, tag, i, len(after), len(before))
			break
		}
		if a != b {
			c.violate("C11", "redelivery", "block-redelivered-different", "node %d (%s): block %d re-delivered with digest %s, before the kill %s", victim.idx, tag, i, a, b)
			break
		}
	}
	// the database of the recovered node holds the chain it re-delivered: every
	// re-delivered block, read back past the block cache, has the body that the
	// (reset) application saw completed with the application's answer
	if bs, ok := boot.store.(*hg.BadgerStore); ok {
		for _, d := range boot.app.log {
			if boot == victim && d.Epoch != victim.epoch {
				continue
			}
			i := d.Block.Index()
			bs.SimEvictBlock(i)
			blk, err := bs.GetBlock(i)
			if err != nil {
				c.violate("C11", "recovered-database", "redelivered-block-not-in-database", "node %d (%s): block %d was re-delivered by bootstrap but cannot be read from the database: %v", victim.idx, tag, i, err)
				break
			}
			want := d.Digest
			if d.AppError {
				want = bodyDigest(&d.Block.Body)
			}
			c.stats.probe("recovered-block-read-from-database")
			if got := bodyDigest(&blk.Body); got != want {
				c.violate("C11", "recovered-database", "database-block-differs-from-redelivered", "node %d (%s): after bootstrap the database holds block %d with digest %s, the block re-delivered to the application has %s (state hash stored %x, returned %x)", victim.idx, tag, i, got, want, blk.Body.StateHash, d.Resp.StateHash)
				break
			}
		}
	}
	known := boot.core().KnownEvents()
	for id, idx := range completed {
		if k, ok := known[id]; !ok || k < idx {
			c.violate("C11", "known-events", "completed-event-lost", "node %d (%s): knew creator %d up to index %d before the kill (insertions completed), only %d after bootstrap", victim.idx, tag, id, idx, known[id])
			break
		}
	}
	if upper != nil {
		for id, k := range known {
			if u, ok := upper[id]; ok && k > u {
				c.violate("C11", "known-events", "unwritten-event-known", "node %d (%s): knows creator %d up to %d after bootstrap, but only %d had ever been handed to the store", victim.idx, tag, id, k, u)
			}
		}
	}
	ownKnown, ok := known[victim.id]
	if !ok {
		ownKnown = -1
	}
	if boot.state() == _state.Babbling {
		if boot.core().Seq() != ownKnown {
			c.violate("C11", "head-restored", "head-not-restored", "node %d (%s): after bootstrap seq=%d but its highest own event known has index %d", victim.idx, tag, boot.core().Seq(), ownKnown)
		} else if ownKnown >= 0 {
			h, err := boot.core().Hashgraph().Store.ParticipantEvent(victim.pubHex, ownKnown)
			if err != nil || h != boot.core().Head() {
				c.violate("C11", "head-restored", "head-not-restored", "node %d (%s): head %s is not its event of index %d (%s)", victim.idx, tag, short(boot.core().Head()), ownKnown, short(h))
			}
		}
	}
}

// shadowBootstrap opens a copy of the victim's database as it is on disk at
// this instant (what a SIGKILL would leave), bootstraps a throw-away node from
// it and evaluates the recovery oracle. The main run is not disturbed.
func (c *Cluster) shadowBootstrap(victim *SimNode, torn float64, phase string) {
	if c.inShadow {
		return
	}
	c.inShadow = true
	savedInner := c.inner
	c.inner = NewRNG(Mix(c.seed^0x736861, uint64(victim.storePoints)))
	defer func() {
		c.inner = savedInner
		c.inShadow = false
	}()
	c.shadowSeq++
	shadowWipe := false
	img := filepath.Join(c.workdir, fmt.Sprintf("shadow-%d", c.shadowSeq))
	if err := copyDir(victim.dbPath, img); err != nil {
		panic(harnessError{"copy db: " + err.Error()})
	}
	kept := false
	defer func() {
		if !kept {
			os.RemoveAll(img)
		}
	}()
	if torn > 0 && phase == "post" {
		name, now := vlogSize(img)
		if name != "" && now > victim.preVlog+1 {
			cut := victim.preVlog + 1 + int64(torn*float64(now-victim.preVlog-1))
			if cut >= now {
				cut = now - 1
			}
			if err := os.Truncate(filepath.Join(img, name), cut); err == nil {
				c.stats.fault("torn-tail")
				if victim.preVlog == victim.vlogAtOpen {
					shadowWipe = true
					c.stats.probe("torn-first-write-after-clean-reopen")
				}
			}
		}
	}
	nviol := len(c.violations)
	defer func() {
		if shadowWipe {
			for _, v := range c.violations[nviol:] {
				if v.Property == "C11" {
					v.Key = "torn-first-write-after-clean-reopen-wipes-value-log"
				}
			}
		}
	}()
	sh := &SimNode{
		idx: victim.idx, key: victim.key, pubHex: victim.pubHex, pubB: victim.pubB, id: victim.id,
		addr: victim.addr + "-shadow", moniker: victim.moniker, c: c, storeKind: "badger", dbPath: img,
		cacheSize: victim.cacheSize, epoch: 0,
		deliveredFrom: map[int]int{}, lastSigs: map[int]map[string]string{},
	}
	sh.app = newSimApp(c, sh)
	sh.app.shadow = true
	sh.trans = newSimTransport(c, sh)
	conf := config.NewDefaultConfig()
	conf.LogLevel = "panic"
	conf.Logger().Logger.Out = io.Discard
	conf.CacheSize = victim.cacheSize
	conf.Bootstrap = true
	conf.SuspendLimit = c.cfg.SuspendLimit
	bs, err := hg.NewBadgerStore(victim.cacheSize, img, false, conf.Logger())
	if err != nil {
		c.violate("C11", "restart", "reopen-error", "node %d (shadow at store point %d): database image cannot be reopened: %v", victim.idx, victim.storePoints, err)
		return
	}
	sh.store = bs
	sh.node = node.NewNode(conf, node.NewValidator(victim.key, victim.moniker),
		peers.NewPeerSet(clonePeers(victim.configuredPeers)), peers.NewPeerSet(clonePeers(victim.genesisPeers)),
		bs, sh.trans, sh.app)
	sh.started = true
	defer func() {
		if kept {
			return
		}
		defer func() { recover() }()
		sh.node.Shutdown()
	}()
	if err := sh.node.Init(); err != nil {
		c.violate("C11", "restart", "bootstrap-error", "node %d (shadow at store point %d, %s): bootstrap failed: %v", victim.idx, victim.storePoints, phase, err)
		return
	}
	c.stats.probe("shadow-bootstrap")
	c.stats.fault("crash-point-" + phase)
	upper := victim.core().KnownEvents()
	c.checkRecovery(victim, sh, victim.epoch, victim.lastKnown, upper)
	// shadow continuation: a few of the recovered images stay alive; at the end of
	// the run they are fed the rest of the history and must deliver the canonical
	// chain ("resumes and remains in agreement with the rest of the network")
	if c.cfg.Profile == "C11" && len(c.violations) == nviol && torn == 0 && !victim.ffDone && len(c.keptShadows) < 3 && c.inner.Bool(0.2) {
		kept = true
		c.keptShadows = append(c.keptShadows, &keptShadow{sh: sh, img: img, victim: victim.idx, point: victim.storePoints, phase: phase})
		c.stats.probe("shadow-kept-for-continuation")
	}
}

type keptShadow struct {
	sh     *SimNode
	img    string
	victim int
	point  int
	phase  string
}

// continueShadows feeds every kept recovered image the events it lacks (in a
// topological order of the record) and compares what its application receives
// with the canonical chain.
func (c *Cluster) continueShadows() {
	if len(c.keptShadows) == 0 {
		return
	}
	c.harvestAll()
	c.inShadow = true
	defer func() { c.inShadow = false }()
	order := c.dag.topoOrder()
	for _, k := range c.keptShadows {
		func() {
			defer func() {
				defer func() { recover() }()
				k.sh.node.Shutdown()
				os.RemoveAll(k.img)
			}()
			if len(c.dag.forks) > 0 {
				return
			}
			h := k.sh.node.SimCore().Hashgraph()
			fed := 0
			for _, e := range order {
				if _, err := h.Store.GetEvent(e.Hash); err == nil {
					continue
				}
				ev := eventFromRecord(e)
				if err := h.InsertEventAndRunConsensus(ev, true); err != nil {
					// e.g. an event whose parents the record does not hold: no verdict
					c.stats.probe("shadow-continuation-insert-refused")
					return
				}
				h.ProcessSigPool()
				fed++
			}
			c.stats.probe("shadow-continuation")
			for _, d := range k.sh.app.log {
				want, ok := c.chain[d.Block.Index()]
				if !ok {
					continue
				}
				if d.Digest != want {
					c.violate("C11", "agreement-after-recovery", "recovered-image-diverges", "the image of node %d's database at store point %d (%s), bootstrapped and fed the %d events it lacked, delivers block %d with digest %s; the network committed %s", k.victim, k.point, k.phase, fed, d.Block.Index(), d.Digest, want)
					return
				}
			}
			// and it must not fall behind what the same events gave the others
			last := -1
			for _, d := range k.sh.app.log {
				if d.Block.Index() > last {
					last = d.Block.Index()
				}
			}
			if v := c.nodes[k.victim]; v.running() && !v.ffDone && v.epoch == 0 {
				if vl := v.node.GetLastBlockIndex(); last < vl {
					c.violate("C11", "agreement-after-recovery", "recovered-image-falls-behind", "the image of node %d's database at store point %d (%s), bootstrapped and fed the %d events it lacked, delivered blocks up to %d; the node itself, holding the same events, is at block %d", k.victim, k.point, k.phase, fed, last, vl)
				}
			}
		}()
	}
	c.keptShadows = nil
}

func (c *Cluster) genCrash(g *genState) *Step {
	r := c.gen
	cands := []*SimNode{}
	for _, n := range c.nodes {
		if n.running() && !n.ffDone && n.armCrashAt == 0 && n.armEventRun == 0 && !n.armBlockPre && (n.task == nil || n.task.done) && n.state() == _state.Babbling {
			cands = append(cands, n)
		}
	}
	if len(cands) == 0 {
		return nil
	}
	n := cands[r.Intn(len(cands))]
	if n.storeKind != "badger" {
		// an in-memory node that is killed is gone for good: only within the tolerated minority
		if c.countUnavailable() >= maxSilent(c.currentValidatorCount()) || !r.Bool(0.2) {
			return nil
		}
		return &Step{Op: "crash", A: n.idx, Kind: "now"}
	}
	switch r.Intn(4) {
	case 0:
		return &Step{Op: "crash", A: n.idx, Kind: "now"}
	case 1:
		return &Step{Op: "cleanrestart", A: n.idx}
	case 2:
		if r.Bool(0.3) {
			return &Step{Op: "crash", A: n.idx, Kind: "before-block-write"}
		}
		if r.Bool(0.6) {
			// inside one insertion: after the k-th of several consecutive event
			// records (the new event, then its ancestors one commit each)
			return &Step{Op: "crash", A: n.idx, Kind: "in-event-run", N: r.Range(2, 4)}
		}
		fallthrough
	default:
		st := &Step{Op: "crash", A: n.idx, Kind: "at", N: r.Range(1, 40)}
		if r.Bool(c.cfg.TornP) {
			st.F = 0.05 + 0.9*r.Float()
		}
		return st
	}
}

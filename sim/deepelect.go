package sim

/*******************************************************************************
Deep elections: histories in which the fame of one witness stays undecided
through one or more coin rounds (decision distance 6 ... 10 and beyond).

Uniform gossip, stragglers, the split-vote template and the fragile-vote
search all decide at distance <= 6. An election that survives a coin round
needs (i) a split that no witness resolves in the normal rounds and (ii) coin
bits that keep it split. Babble's coin is the "middle bit" of the witness's
hash - false only when the middle byte is zero - so the harness *grinds* the
payload of the coin-round witnesses until the real hash carries the wanted
bit (what an adversarial validator can do; honest histories of that shape
exist with probability 256^-k). The abstract history is found with the
reference model under an adversarial coin: deepElection scores a DAG by the
longest undecided election, climbDeep hill-climbs play lists towards it.
*******************************************************************************/

type deepResult struct {
	score float64
	x     int          // the witness whose election lasts longest
	dist  int          // its decision distance (0: never decided inside the DAG)
	last  int          // last distance at which it was still undecided
	bits  map[int]bool // coin-round witnesses of x's election -> wanted coin bit
}

// deepElection runs the election of every witness under an adversarial coin
// (every witness that flips a coin gets the bit that keeps the vote balanced)
// and returns the longest one.
func (d *refDag) deepElection(coinFreq int) deepResult {
	best := deepResult{x: -1}
	for r := 0; r < len(d.wits); r++ {
		for _, x := range d.wits[r] {
			votes := map[int]bool{}
			bits := map[int]bool{}
			last, dist := 0, 0
			bal := 0.0
			for j := r + 1; j < len(d.wits) && dist == 0; j++ {
				diff := j - r
				smp := refSuperMajority(len(d.setOf(j - 1)))
				sm := refSuperMajority(len(d.setOf(j)))
				if smp > sm {
					sm = smp
				}
				var flippers []int
				ny, nn := 0, 0
				for _, y := range d.wits[j] {
					if diff == 1 {
						votes[y] = d.sees(y, x)
					} else {
						yays, nays := 0, 0
						for _, w := range d.wits[j-1] {
							if d.pathCount(y, w) >= smp {
								if votes[w] {
									yays++
								} else {
									nays++
								}
							}
						}
						v, t := false, nays
						if yays >= nays {
							v, t = true, yays
						}
						if diff%coinFreq != 0 {
							votes[y] = v
							if t >= sm {
								dist = diff
							}
						} else if t >= sm {
							votes[y] = v
						} else {
							flippers = append(flippers, y)
							continue
						}
					}
					if votes[y] {
						ny++
					} else {
						nn++
					}
				}
				for _, y := range flippers {
					b := ny <= nn // balance; ties go to true (the cheap bit)
					votes[y] = b
					bits[y] = b
					if b {
						ny++
					} else {
						nn++
					}
				}
				if dist == 0 {
					last = diff
					m := ny
					if nn < m {
						m = nn
					}
					bal = float64(m) / float64(ny+nn+1)
				}
			}
			sc := float64(last) + bal
			if sc > best.score {
				best = deepResult{score: sc, x: x, dist: dist, last: last, bits: bits}
			}
		}
	}
	return best
}

// climbDeep hill-climbs a play list towards an election that is still
// undecided at distance want.
func climbDeep(r *RNG, n int, plays []synthPlay, iters, coinFreq, want int) ([]synthPlay, deepResult) {
	eval := func(p []synthPlay) deepResult {
		d, _ := refFromPlays(n, p)
		return d.deepElection(coinFreq)
	}
	cur := append([]synthPlay{}, plays...)
	best := eval(cur)
	for it := 0; it < iters && best.last < want; it++ {
		cand := mutatePlays(r, n, n, cur)
		f := eval(cand)
		if f.score >= best.score {
			cur, best = cand, f
		}
	}
	return cur, best
}

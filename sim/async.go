package sim

import (
	"fmt"
	"testing/synctest"

	"github.com/mosaicnetworks/babble/src/node"
	_state "github.com/mosaicnetworks/babble/src/node/state"
	"github.com/mosaicnetworks/babble/src/peers"
)

/*******************************************************************************
Interleave mode: a gossip operation of a node runs as a task that the
scheduler may park at its transport calls (no lock is held there) and resume
several steps later, so that operations of one node overlap the way the real
node's concurrent gossip routines do.
*******************************************************************************/

type taskAbort struct{}

// runTask starts f on its own goroutine as the current task and waits until it
// finishes or parks.
func (c *Cluster) runTask(t *task, f func()) {
	c.tasks = append(c.tasks, t)
	t.gate = make(chan struct{})
	t.epoch = t.n.epoch
	c.curTask = t
	go func() {
		defer func() {
			if r := recover(); r != nil {
				switch v := r.(type) {
				case taskAbort:
				case crashSentinel:
					c.finishCrash(v.n)
				case harnessError:
					c.taskHarnessErr = &v
				default:
					c.violate("PANIC", "no-panic", "panic@"+topFrame(), "panic in code under test inside a parked gossip of node %d: %v at %s", t.n.idx, r, topFrame())
				}
			}
			t.done = true
			t.parked = false
			c.curTask = nil
		}()
		f()
	}()
	synctest.Wait()
	c.curTask = nil
	if c.taskHarnessErr != nil {
		panic(*c.taskHarnessErr)
	}
}

// park suspends the current task for k steps. Called from inside Network.call.
func (c *Cluster) park(t *task, k int) {
	t.parked = true
	t.resumeAt = c.stepNo + k
	c.curTask = nil
	c.stats.fault("gossip-leg-delayed")
	<-t.gate
	if t.aborted {
		panic(taskAbort{})
	}
}

func (c *Cluster) resume(t *task) {
	if !t.parked || t.done {
		return
	}
	if t.n.epoch != t.epoch || !t.n.running() {
		t.aborted = true
	}
	if h := t.handlerNode; h != nil && (h.epoch != t.handlerEpoch || !h.running() || h.node == nil) {
		// the node inside whose handler the request is parked was killed
		// meanwhile (possibly with its core lock held by the operation that was
		// cut short): the request dies with the process that was serving it
		t.aborted = true
		c.stats.probe("parked-request-in-handler-of-killed-node")
	}
	t.parked = false
	c.curTask = t
	t.gate <- struct{}{}
	synctest.Wait()
	c.curTask = nil
	if c.taskHarnessErr != nil {
		panic(*c.taskHarnessErr)
	}
	c.runWakeups()
}

// resumeDue resumes the parked tasks whose delay has elapsed, in task order.
func (c *Cluster) resumeDue() {
	for i := 0; i < len(c.tasks); i++ {
		t := c.tasks[i]
		if t.parked && !t.done && t.resumeAt <= c.stepNo {
			c.resume(t)
		}
	}
}

// drainTasksOf lets every parked operation of n finish (what WaitRoutines does
// before Suspend / Shutdown return).
func (c *Cluster) drainTasksOf(n *SimNode) {
	for i := 0; i < len(c.tasks); i++ {
		t := c.tasks[i]
		if t.n == n && t.parked && !t.done {
			c.resume(t)
		}
	}
}

func (c *Cluster) drainAllTasks() {
	for i := 0; i < len(c.tasks); i++ {
		t := c.tasks[i]
		if t.parked && !t.done {
			c.resume(t)
		}
	}
}

func (c *Cluster) parkedCount(n *SimNode) int {
	k := 0
	for _, t := range c.tasks {
		if t.n == n && t.parked && !t.done {
			k++
		}
	}
	return k
}

// asyncTick: the node's gossip with explicit per-leg delays (in steps):
// positive = the response is held back, negative = the request is held back.
func (c *Cluster) asyncTick(a, b *SimNode, s *Step) {
	p := findPeer(a, b)
	if p == nil {
		return
	}
	t := &task{id: len(c.tasks), kind: "gossip", n: a, plan: map[string]int{"pull": s.N, "push": int(s.D)}}
	if s.Late > 0 {
		// park at a lock gap instead: between pull and push, or (inside the
		// responder's handler) between computing the diff and reading its known map
		site := "gossip.between"
		if s.Late%2 == 0 {
			site = "syncreq.between"
		}
		t.plan[site] = s.Late
	}
	nd := a.node
	c.stats.probe("async-gossip")
	c.runTask(t, func() {
		if err := nd.SimGossip(p); err != nil {
			c.stats.probe("gossip-error")
			c.noteGossipError(a, err)
		}
		if a.running() && a.node == nd && nd.GetState() == _state.Babbling {
			nd.SimCheckSuspend()
			c.checkSuspendRule(a, _state.Babbling)
		}
	})
}

// ffWindowIntrusion: the node is inside Node.fastForward, between the reset of
// its hashgraph and the processing of the anchor block's receipts, and holds
// no lock there. In production its other routines and its peers run on: here a
// babbling peer pushes the events the node lacks at exactly that instant (H9
// yield point ff.between). The shipped code is still CatchingUp and refuses.
func (c *Cluster) ffWindowIntrusion(nd *node.Node) {
	if c.inShadow || !c.inner.Bool(0.6) {
		return
	}
	var a *SimNode
	for _, n := range c.nodes {
		if n.node == nd {
			a = n
		}
	}
	if a == nil || a.byz {
		return
	}
	cands := []*SimNode{}
	for _, b := range c.nodes {
		if b != a && b.running() && !b.silent && !b.byz && !b.isObserver && b.state() == _state.Babbling {
			cands = append(cands, b)
		}
	}
	if len(cands) == 0 {
		return
	}
	b := cands[c.inner.Intn(len(cands))]
	p := &peers.Peer{NetAddr: a.addr, PubKeyHex: a.pubHex, Moniker: a.moniker}
	if fp := findPeer(b, a); fp != nil {
		p = fp
	}
	known := a.core().KnownEvents()
	saved := c.net.legs
	c.net.legs = map[string]string{}
	c.stats.probe("ff-window-push")
	if err := b.node.SimPush(p, known); err == nil {
		c.stats.probe("ff-window-push-accepted")
	}
	c.net.legs = saved
}

var _ = fmt.Sprint

package sim

import (
	"bufio"
	"encoding/json"
	"fmt"
	"os"
	"os/signal"
	"syscall"
	"testing"
	"time"
)

func init() {
	// node.NewNode calls signal.Notify; the runtime's signal goroutine must
	// exist before any synctest bubble does.
	ch := make(chan os.Signal, 1)
	signal.Notify(ch, syscall.SIGUSR2)
}

// Job is what the orchestrator hands to one worker process.
type Job struct {
	Mode      string   `json:"mode"` // "explore" | "replay" | "minimise" | "selftest"
	Property  string   `json:"property"`
	Thorough  bool     `json:"thorough"`
	BaseSeed  uint64   `json:"base_seed"`
	First     int      `json:"first"` // run numbers first, first+stride, ...
	Stride    int      `json:"stride"`
	MaxRuns   int      `json:"max_runs"`
	BudgetSec float64  `json:"budget_sec"`
	Out       string   `json:"out"`
	Replay    string   `json:"replay"`
	KeepSteps bool     `json:"keep_steps"`
	Seeds     []uint64 `json:"seeds"`
	KnownKeys []string `json:"known_keys"`
}

func runSeed(base uint64, property string, k int) uint64 {
	h := uint64(0)
	for _, ch := range property {
		h = h*131 + uint64(ch)
	}
	return Mix(Mix(base, h), uint64(k))
}

// TestWorker is the single entry point of the harness binary.
func TestWorker(t *testing.T) {
	jobPath := os.Getenv("SIM_JOB")
	if jobPath == "" {
		t.Skip("SIM_JOB not set")
	}
	raw, err := os.ReadFile(jobPath)
	if err != nil {
		t.Fatal(err)
	}
	var job Job
	if err := json.Unmarshal(raw, &job); err != nil {
		t.Fatal(err)
	}
	out, err := os.Create(job.Out)
	if err != nil {
		t.Fatal(err)
	}
	defer out.Close()
	w := bufio.NewWriter(out)
	defer w.Flush()
	emit := func(v interface{}) {
		b, _ := json.Marshal(v)
		w.Write(b)
		w.WriteByte('\n')
		w.Flush()
	}
	switch job.Mode {
	case "explore":
		deadline := time.Now().Add(time.Duration(job.BudgetSec * float64(time.Second)))
		n := 0
		for k := job.First; ; k += job.Stride {
			if job.MaxRuns > 0 && n >= job.MaxRuns {
				break
			}
			if n > 0 && time.Now().After(deadline) {
				break
			}
			seed := runSeed(job.BaseSeed, job.Property, k)
			emit(map[string]interface{}{"starting": seed})
			res := runOne(t, &runSpec{Property: job.Property, Seed: seed, Thorough: job.Thorough, KeepSteps: job.KeepSteps || k < 2, KnownKeys: job.KnownKeys})
			emit(res)
			n++
			if res.Error != "" {
				break
			}
		}
	case "seeds":
		for _, seed := range job.Seeds {
			res := runOne(t, &runSpec{Property: job.Property, Seed: seed, Thorough: job.Thorough, KeepSteps: job.KeepSteps, TracePer: true, KnownKeys: job.KnownKeys})
			emit(res)
		}
	case "replay":
		rf, err := loadReplay(job.Replay)
		if err != nil {
			t.Fatal(err)
		}
		res := runOne(t, &runSpec{Property: rf.Property, Seed: rf.Seed, Config: rf.Config, Steps: rf.Steps, KeepSteps: false, TracePer: true,
			StopAt: &Violation{Property: rf.Property, Oracle: rf.Oracle, Key: rf.Key}})
		emit(res)
	case "minimise":
		rf, err := loadReplay(job.Replay)
		if err != nil {
			t.Fatal(err)
		}
		min := minimise(t, rf, job.BudgetSec)
		emit(min)
	default:
		t.Fatalf("unknown mode %q", job.Mode)
	}
	fmt.Fprintln(os.Stderr, "worker done")
}

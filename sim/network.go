package sim

import (
	"encoding/json"
	"fmt"

	"github.com/mosaicnetworks/babble/src/net"
)

// Network is the simulated network: every RPC of every node goes through
// Network.call, which decides delivery, loss, delay and partitions.
type Network struct {
	c      *Cluster
	groups map[int]int // node idx -> partition group (absent = 0)

	// per-step leg plan (set by the executor for the duration of a tick)
	legs   map[string]string // "pull","push","ff","join" -> fault
	lateK  int
	pickID uint32

	late []*lateRPC

	// hostile responders: addr -> function producing responses (Byzantine actors)
	responders map[string]func(kind string, args interface{}) (interface{}, error)

	// requester of the call in progress (wire mode: whose transport sends it)
	curFrom *SimNode

	// observers of traffic (C15 monitors)
	onSyncResp func(from, to *SimNode, resp *net.SyncResponse)
}

type lateRPC struct {
	due    int
	target *SimNode
	epoch  int
	kind   string
	cmd    interface{}
}

func newNetwork(c *Cluster) *Network {
	return &Network{c: c, groups: map[int]int{}, legs: map[string]string{}, responders: map[string]func(string, interface{}) (interface{}, error){}}
}

func (nw *Network) reachable(a, b *SimNode) bool {
	return nw.groups[a.idx] == nw.groups[b.idx]
}

func legOf(kind string) string {
	switch kind {
	case "sync":
		return "pull"
	case "eager":
		return "push"
	}
	return kind
}

func jsonCopy(src, dst interface{}) error {
	raw, err := json.Marshal(src)
	if err != nil {
		return err
	}
	return json.Unmarshal(raw, dst)
}

func newCommand(kind string) interface{} {
	switch kind {
	case "sync":
		return &net.SyncRequest{}
	case "eager":
		return &net.EagerSyncRequest{}
	case "ff":
		return &net.FastForwardRequest{}
	case "join":
		return &net.JoinRequest{}
	}
	return nil
}

var errTimeout = fmt.Errorf("i/o timeout (simulated)")
var errRefused = fmt.Errorf("connection refused (simulated)")

// deliver hands a command to the target's real processRPC and returns what it
// answered. The command and the response both cross a JSON encoding, as they
// do on the real transport.
func (nw *Network) deliver(target *SimNode, kind string, args interface{}, resp interface{}) (err error) {
	c := nw.c
	if c.cfg.Wire && target.wire != nil {
		from := nw.curFrom
		nw.curFrom = nil
		return c.wireDeliver(from, target, kind, args, resp)
	}
	cmd := newCommand(kind)
	if e := jsonCopy(args, cmd); e != nil {
		return fmt.Errorf("encode request: %v", e)
	}
	ch := make(chan net.RPCResponse, 1)
	rpc := net.RPC{Command: cmd, RespChan: ch}

	crashed := false
	func() {
		defer func() {
			if r := recover(); r != nil {
				if cs, ok := r.(crashSentinel); ok && cs.n == target {
					crashed = true
					return
				}
				panic(r)
			}
		}()
		target.node.SimProcessRPC(rpc)
	}()
	if crashed {
		c.finishCrash(target)
		return errRefused
	}
	r := <-ch
	if resp != nil {
		if e := jsonCopy(r.Response, resp); e != nil {
			return fmt.Errorf("decode response: %v", e)
		}
	}
	if r.Error != nil {
		return fmt.Errorf("%s", r.Error.Error())
	}
	return nil
}

func (nw *Network) call(from *SimNode, targetAddr, kind string, args interface{}, resp interface{}) error {
	c := nw.c
	c.stats.RPCs++
	if fn, ok := nw.responders[targetAddr]; ok {
		out, err := fn(kind, args)
		if out != nil {
			if e := jsonCopy(out, resp); e != nil {
				return e
			}
		}
		return err
	}
	target := c.byAddr[targetAddr]
	if target == nil || !target.running() || target.maintenance {
		// (a node in maintenance mode opens no transport)
		c.stats.fault("target-down")
		return errRefused
	}
	if from != nil && !nw.reachable(from, target) {
		c.stats.fault("partitioned")
		return errTimeout
	}
	if target.silent {
		c.stats.fault("silent-target")
		return errTimeout
	}
	leg := legOf(kind)
	// interleave mode: the running operation may be parked around this call
	task := c.curTask
	delay := 0
	if task != nil && task.kind == "gossip" && from == task.n {
		delay = task.plan[leg]
		task.plan[leg] = 0
		if delay < 0 {
			c.park(task, -delay)
			if !target.running() || target.silent || !nw.reachable(from, target) {
				return errTimeout
			}
		}
	}
	fault := nw.legs[leg]
	switch fault {
	case "dropreq":
		c.stats.fault("drop-request")
		return errTimeout
	case "late":
		c.stats.fault("late-delivery")
		cmd := newCommand(kind)
		if e := jsonCopy(args, cmd); e == nil {
			nw.late = append(nw.late, &lateRPC{due: c.stepNo + nw.lateK, target: target, epoch: target.epoch, kind: kind, cmd: cmd})
		}
		return errTimeout
	case "dropresp":
		c.stats.fault("drop-response")
		scratch := newResponse(kind)
		nw.deliver(target, kind, args, scratch)
		return errTimeout
	}
	nw.curFrom = from
	err := nw.deliver(target, kind, args, resp)
	nw.curFrom = nil
	if delay > 0 {
		c.curTask = task
		c.park(task, delay)
	}
	if kind == "sync" && err == nil && nw.onSyncResp != nil && from != nil {
		nw.onSyncResp(target, from, resp.(*net.SyncResponse))
	}
	return err
}

func newResponse(kind string) interface{} {
	switch kind {
	case "sync":
		return &net.SyncResponse{}
	case "eager":
		return &net.EagerSyncResponse{}
	case "ff":
		return &net.FastForwardResponse{}
	case "join":
		return &net.JoinResponse{}
	}
	return nil
}

// deliverLate executes the requests whose delayed delivery is due.
func (nw *Network) deliverLate() {
	c := nw.c
	rest := nw.late[:0]
	due := []*lateRPC{}
	for _, l := range nw.late {
		if l.due <= c.stepNo {
			due = append(due, l)
		} else {
			rest = append(rest, l)
		}
	}
	nw.late = rest
	for _, l := range due {
		if !l.target.running() || l.target.epoch != l.epoch || l.target.silent {
			continue
		}
		c.stats.probe("late-request-executed")
		nw.deliver(l.target, l.kind, l.cmd, newResponse(l.kind))
	}
}

// SimTransport implements net.Transport for one node.
type SimTransport struct {
	c      *Cluster
	owner  *SimNode
	ch     chan net.RPC
	closed bool
}

func newSimTransport(c *Cluster, owner *SimNode) *SimTransport {
	return &SimTransport{c: c, owner: owner, ch: make(chan net.RPC)}
}

func (t *SimTransport) Listen()                  {}
func (t *SimTransport) Consumer() <-chan net.RPC { return t.ch }
func (t *SimTransport) LocalAddr() string        { return t.owner.addr }
func (t *SimTransport) AdvertiseAddr() string    { return t.owner.addr }
func (t *SimTransport) Close() error {
	t.closed = true
	t.c.closeWire(t.owner)
	return nil
}

func (t *SimTransport) Sync(target string, args *net.SyncRequest, resp *net.SyncResponse) error {
	return t.c.net.call(t.owner, target, "sync", args, resp)
}
func (t *SimTransport) EagerSync(target string, args *net.EagerSyncRequest, resp *net.EagerSyncResponse) error {
	return t.c.net.call(t.owner, target, "eager", args, resp)
}
func (t *SimTransport) FastForward(target string, args *net.FastForwardRequest, resp *net.FastForwardResponse) error {
	return t.c.net.call(t.owner, target, "ff", args, resp)
}
func (t *SimTransport) Join(target string, args *net.JoinRequest, resp *net.JoinResponse) error {
	return t.c.net.call(t.owner, target, "join", args, resp)
}

package sim

import (
	"bytes"
	"fmt"
	"os"
	"sort"

	"github.com/mosaicnetworks/babble/src/crypto/keys"
	hg "github.com/mosaicnetworks/babble/src/hashgraph"
	"github.com/mosaicnetworks/babble/src/peers"
)

/*******************************************************************************
C05 transaction integrity
*******************************************************************************/

// checkC05Safety: called for every new canonical block.
func (c *Cluster) checkC05Safety(b *hg.Block) {
	for _, tx := range b.Transactions() {
		k := string(tx)
		sub := c.ledger.submitted[k]
		com := c.ledger.committed[k]
		if sub == 0 {
			c.violate("C05", "no-invention", "invented-transaction", "block %d contains transaction %x that was never submitted", b.Index(), clip(tx, 24))
		} else if com > sub {
			c.violate("C05", "no-duplicate", "transaction-committed-twice", "transaction %x committed %d times but submitted %d times (block %d)", clip(tx, 24), com, sub, b.Index())
		}
	}
}

func clip(b []byte, n int) []byte {
	if len(b) > n {
		return b[:n]
	}
	return b
}

// checkC05Conservation: for a running node, what it accepted = its pool plus
// the payload of the events it created since it started.
func (c *Cluster) checkC05Conservation(n *SimNode) {
	if !n.running() {
		return
	}
	if n.storeErrSeen {
		// its database refused a write: what such a node does with its pools is
		// not promised (the global clauses - nothing invented, nothing committed
		// twice - stay in force)
		return
	}
	core := n.core()
	seq := core.Seq()
	for i := n.ownScanned + 1; i <= seq; i++ {
		h, ok := c.dag.byCI[n.pubHex][i]
		if !ok {
			// own event not (yet) harvested: try the node's store
			hh, err := core.Hashgraph().Store.ParticipantEvent(n.pubHex, i)
			if err != nil {
				return
			}
			h = hh
		}
		e := c.dag.events[h]
		if e == nil {
			return
		}
		for _, tx := range e.Body.Transactions {
			n.ownPayload[string(tx)]++
			if debugTrace {
				fmt.Fprintf(os.Stderr, "  c05: node %d own event #%d (epoch %d, scanned from %d) carries %s\n", n.idx, i, n.epoch, n.ownScanned, tx)
			}
		}
		n.ownScanned = i
	}
	want := map[string]int{}
	for _, tx := range n.acceptedTxs {
		want[string(tx)]++
	}
	have := map[string]int{}
	for _, tx := range core.TransactionPool() {
		have[string(tx)]++
	}
	for k, v := range n.ownPayload {
		have[k] += v
	}
	for k, w := range want {
		if have[k] < w {
			c.violate("C05", "conservation", "accepted-transaction-dropped", "node %d: accepted transaction %x %d time(s) but it is in its pool and own events only %d time(s)", n.idx, clip([]byte(k), 24), w, have[k])
			return
		}
	}
	for k, h := range have {
		if h > want[k] {
			c.violate("C05", "conservation", "transaction-duplicated-locally", "node %d: transaction %x accepted %d time(s) but present %d time(s) in its pool and own events", n.idx, clip([]byte(k), 24), want[k], h)
			return
		}
	}
}

// checkC05End: after a fair suffix that reached quiescence, everything
// accepted by nodes that kept running is committed exactly once.
func (c *Cluster) checkC05End() {
	if c.fairQuiescentAt == 0 {
		return
	}
	// expected to be committed: what the live nodes (this incarnation) accepted
	liveAccepted := map[string]int{}
	for _, n := range c.liveBabbling() {
		if n.stalled || n.storeErrSeen {
			continue
		}
		for _, tx := range n.acceptedTxs {
			liveAccepted[string(tx)]++
		}
	}
	keys := make([]string, 0, len(c.ledger.submitted))
	for k := range c.ledger.submitted {
		keys = append(keys, k)
	}
	sort.Strings(keys)
	for _, k := range keys {
		sub := c.ledger.submitted[k]
		com := c.ledger.committed[k]
		if com > sub {
			c.violate("C05", "no-duplicate", "transaction-committed-twice", "transaction %x committed %d times, submitted %d", clip([]byte(k), 24), com, sub)
		}
		if com < liveAccepted[k] {
			c.violate("C05", "eventual-commit", "transaction-never-committed", "transaction %x was accepted %d time(s) by nodes that kept running but is committed %d time(s) after the fair suffix reached quiescence", clip([]byte(k), 24), liveAccepted[k], com)
			return
		}
	}
}

/*******************************************************************************
C04 committed order extends causality
*******************************************************************************/

func (c *Cluster) checkC04(n *SimNode) {
	if !n.running() || n.ffDone {
		return
	}
	h := n.core().Hashgraph()
	if h.LastConsensusRound == nil {
		return
	}
	store := h.Store
	pos := map[string]int{}
	gap := false
	seq := 0
	blockIdx := 0
	lastBlock := store.LastBlockIndex()
	for r := 0; r <= *h.LastConsensusRound; r++ {
		frame, err := store.GetFrame(r)
		if err != nil {
			// round without processed frame, or a frame evicted from a small cache:
			// from here on a parent may have been committed in a frame we cannot read
			if r < store.LastRound() {
				gap = true
			}
			continue
		}
		var txs [][]byte
		var itxs int
		inFrame := map[string]bool{}
		for _, fe := range frame.Events {
			inFrame[fe.Core.Hex()] = true
		}
		for _, fe := range frame.Events {
			hash := fe.Core.Hex()
			if _, dup := pos[hash]; dup {
				c.violate("C04", "committed-once", "event-committed-twice", "node %d: event %s appears twice in the committed order (frame %d)", n.idx, short(hash), r)
				return
			}
			de := c.dag.events[hash]
			if de == nil {
				c.violate("C04", "known-event", "unknown-committed-event", "node %d: frame %d contains event %s which no node ever held", n.idx, r, short(hash))
				return
			}
			for _, p := range []string{de.SelfP, de.OtherP} {
				if p == "" {
					continue
				}
				if _, ok := pos[p]; !ok && gap && !inFrame[p] {
					// (a parent that sits later in this very frame is out of order
					// whatever earlier frames could not be read)
					continue
				}
				if _, ok := pos[p]; !ok {
					c.violate("C04", "order-extends-ancestry", "parent-after-child", "node %d: event %s (frame %d) is committed before its parent %s", n.idx, short(hash), r, short(p))
					return
				}
			}
			if fe.LamportTimestamp == 0 && (de.SelfP != "" || de.OtherP != "") {
				c.stats.probe("c04-frame-event-with-parents-and-lamport-zero")
			}
			pos[hash] = seq
			seq++
			txs = append(txs, de.Body.Transactions...)
			itxs += len(de.Body.InternalTransactions)
			// (iv) the event's own round-received says r
			if ev, err := store.GetEvent(hash); err == nil {
				// (an event reloaded from the database has lost this derived field: -1 says nothing)
				if rr := ev.SimRoundReceived(); rr >= 0 && rr != r {
					c.violate("C04", "frame-is-round-received", "round-received-mismatch", "node %d: event %s is in frame %d but its round-received is %d", n.idx, short(hash), r, rr)
					return
				}
			}
		}
		if len(frame.Events) == 0 {
			continue
		}
		if len(txs) == 0 && itxs == 0 {
			continue // no payload, no block
		}
		if blockIdx > lastBlock {
			break
		}
		blk, err := store.GetBlock(blockIdx)
		if err != nil {
			blockIdx++
			continue
		}
		if gap && blk.RoundReceived() < r {
			// frames (with payload) we could not read account for the blocks in between
			for blockIdx <= lastBlock {
				b2, err := store.GetBlock(blockIdx)
				if err != nil || b2.RoundReceived() >= r {
					break
				}
				blockIdx++
			}
			if b2, err := store.GetBlock(blockIdx); err == nil {
				blk = b2
			} else {
				continue
			}
		}
		if blk.RoundReceived() != r {
			c.violate("C04", "block-is-one-round", "block-round-mismatch", "node %d: block %d has round-received %d, but the next frame with payload is %d", n.idx, blockIdx, blk.RoundReceived(), r)
			return
		}
		if len(blk.Transactions()) != len(txs) {
			c.violate("C04", "block-payload", "block-payload-mismatch", "node %d: block %d has %d transactions, the events of frame %d carry %d", n.idx, blockIdx, len(blk.Transactions()), r, len(txs))
			return
		}
		for i := range txs {
			if !bytes.Equal(txs[i], blk.Transactions()[i]) {
				c.violate("C04", "block-payload", "block-payload-mismatch", "node %d: block %d transaction %d differs from the concatenated event payloads of frame %d", n.idx, blockIdx, i, r)
				return
			}
		}
		blockIdx++
	}
	// (iv) converse: every event whose round-received is set is in that frame
	for hash := range n.completedEvents {
		ev, err := store.GetEvent(hash)
		if err != nil {
			continue
		}
		rr := ev.SimRoundReceived()
		if rr >= 0 && rr <= *h.LastConsensusRound {
			if _, ok := pos[hash]; !ok {
				if _, err := store.GetFrame(rr); err == nil {
					c.violate("C04", "frame-is-round-received", "received-event-missing-from-frame", "node %d: event %s has round-received %d but is not in frame %d", n.idx, short(hash), rr, rr)
					return
				}
			}
		}
	}
	c.stats.probe("c04-order-checked")
}

/*******************************************************************************
C10 validator-set history
*******************************************************************************/

func pubKeysOf(ps []*peers.Peer) []string {
	out := make([]string, len(ps))
	for i, p := range ps {
		out[i] = p.PubKeyString()
	}
	return out
}

func sameList(a, b []string) bool {
	if len(a) != len(b) {
		return false
	}
	for i := range a {
		if a[i] != b[i] {
			return false
		}
	}
	return true
}

// nodeModel replays the blocks delivered by one node (current incarnation).
func (c *Cluster) nodeModel(n *SimNode) *VSModel {
	gk := []string{}
	for _, m := range c.genesisSet {
		gk = append(gk, m.pubHex)
	}
	m := newVSModel(gk)
	for _, d := range n.app.log {
		if d.Shadow || d.Epoch != n.epoch {
			continue
		}
		full := d.Block
		full.Body.InternalTransactionReceipts = d.Resp.InternalTransactionReceipts
		m.apply(&full)
	}
	return m
}

func (c *Cluster) checkC10(n *SimNode) {
	if !n.running() || n.ffDone {
		return
	}
	model := c.nodeModel(n)
	all, err := n.node.GetAllValidatorSets()
	if err != nil {
		return
	}
	maxR := 0
	for r := range all {
		if r > maxR {
			maxR = r
		}
	}
	for _, r := range model.rounds {
		if r > maxR {
			maxR = r
		}
	}
	h := n.core().Hashgraph()
	if lr := h.Store.LastRound(); lr > maxR {
		maxR = lr
	}
	// entries: only 0 or round-received+6 of a block with an accepted change
	for r, ps := range all {
		if _, ok := model.sets[r]; !ok {
			c.violate("C10", "history-entries", "unexplained-validator-set-entry", "node %d reports a validator set of %d peers at round %d which no committed block explains", n.idx, len(ps), r)
			return
		}
	}
	for r := 0; r <= maxR+7; r++ {
		got, err := n.node.GetValidatorSet(r)
		if err != nil {
			continue
		}
		want := model.at(r)
		if !sameList(pubKeysOf(got), want) {
			c.violate("C10", "history-replay", "validator-set-differs-from-replay", "node %d: validator set for round %d has %d members, replay of its delivered blocks gives %d (%v vs %v)", n.idx, r, len(got), len(want), shortList(pubKeysOf(got)), shortList(want))
			return
		}
	}
	// block peer-set hash = hash of the set effective at round-received
	for _, d := range n.app.log {
		if d.Shadow || d.Epoch != n.epoch {
			continue
		}
		want := model.at(d.Block.RoundReceived())
		ps := []*peers.Peer{}
		for _, k := range want {
			ps = append(ps, peers.NewPeer(k, "", ""))
		}
		wh, _ := peers.NewPeerSet(ps).Hash()
		if !bytes.Equal(wh, d.Block.PeersHash()) {
			c.violate("C10", "peers-hash", "block-peers-hash-mismatch", "node %d: block %d (round %d) peer-set hash is not the hash of the replayed set of %d members", n.idx, d.Block.Index(), d.Block.RoundReceived(), len(want))
			return
		}
	}
	// witnesses belong to their round's set; block signers to the block's round's set
	for r := 0; r <= h.Store.LastRound(); r++ {
		ri, err := h.Store.GetRound(r)
		if err != nil {
			continue
		}
		set := model.at(r)
		for _, w := range ri.Witnesses() {
			de := c.dag.events[w]
			if de == nil {
				continue
			}
			if !contains(set, de.Creator) && debugTrace {
				fmt.Fprintf(os.Stderr, "  C10 debug: node %d round %d witness %s by n%d#%d; model rounds %v causes %v; node lcr %v last round %d\n", n.idx, r, short(w), c.byPub[de.Creator].idx, de.Index, model.rounds, model.cause, h.LastConsensusRound, h.Store.LastRound())
				if sets, err := h.Store.GetAllPeerSets(); err == nil {
					for rr, ps := range sets {
						fmt.Fprintf(os.Stderr, "     node peer-set from round %d: %d members\n", rr, len(ps))
					}
				}
				for i := 0; i <= h.Store.LastBlockIndex(); i++ {
					if b, err := h.Store.GetBlock(i); err == nil && len(b.InternalTransactions()) > 0 {
						fmt.Fprintf(os.Stderr, "     block %d round-received %d carries %d membership transactions\n", i, b.RoundReceived(), len(b.InternalTransactions()))
					}
				}
			}
			if !contains(set, de.Creator) {
				// Was the event already there when this node committed the block that
				// changed the set? Then the node registered the witness with the set it
				// knew at the time: the change came into force at a round that already
				// had events (the fame of the block's round took more than five rounds
				// to be decided) - one class, see known_findings.json.
				inForce := 0
				for _, mr := range model.rounds {
					if mr <= r {
						inForce = mr
					}
				}
				if cb, ok := model.cause[inForce]; ok && cb >= 0 {
					if c.lateSetChangeFor(n, r, de.FirstStep, w) {
						c.violate("C10", "witness-membership", "set-change-in-force-at-a-round-that-already-has-events", "node %d: round %d has a witness %s created by %s who is not in the round's validator set: block %d (round-received %d), whose receipt removes it from round %d on, was committed by this node only after that event existed", n.idx, r, short(w), short(de.Creator), cb, inForce-6, inForce)
						return
					}
				}
				c.violate("C10", "witness-membership", "non-member-witness", "node %d: round %d has a witness %s created by %s who is not in the round's validator set", n.idx, r, short(w), short(de.Creator))
				return
			}
		}
	}
	c.stats.probe("c10-history-checked")
}

func shortList(a []string) []string {
	out := make([]string, len(a))
	for i, x := range a {
		if len(x) > 10 {
			out[i] = x[len(x)-6:]
		} else {
			out[i] = x
		}
	}
	return out
}

// checkC10Cross: honest full-history nodes report the same history on the
// rounds both know about.
func (c *Cluster) checkC10Cross() {
	var ref *SimNode
	var refAll map[int][]*peers.Peer
	for _, n := range c.nodes {
		if !n.running() || n.ffDone {
			continue
		}
		all, err := n.node.GetAllValidatorSets()
		if err != nil {
			continue
		}
		if ref == nil {
			ref, refAll = n, all
			continue
		}
		for r, ps := range all {
			if rp, ok := refAll[r]; ok {
				if !sameList(pubKeysOf(ps), pubKeysOf(rp)) {
					c.violate("C10", "history-agreement", "validator-set-history-disagreement", "nodes %d and %d report different validator sets for round %d", ref.idx, n.idx, r)
					return
				}
			}
		}
	}
}

/*******************************************************************************
C18 block timestamps
*******************************************************************************/

func (c *Cluster) checkC18(n *SimNode, d *Delivery) {
	if !n.running() {
		return
	}
	h := n.core().Hashgraph()
	rr := d.Block.RoundReceived()
	ri, err := h.Store.GetRound(rr)
	if err != nil {
		return
	}
	fws := ri.FamousWitnesses()
	if len(fws) == 0 {
		return
	}
	all := []int64{}
	honest := []int64{}
	liars := 0
	for _, w := range fws {
		de := c.dag.events[w]
		if de == nil {
			ev, err := h.Store.GetEvent(w)
			if err != nil {
				return
			}
			de = c.dag.add(ev, c.stepNo, n.idx)
		}
		all = append(all, de.Timestamp)
		if cr := c.byPub[de.Creator]; cr != nil && cr.liar {
			liars++
		} else {
			honest = append(honest, de.Timestamp)
		}
	}
	sort.Slice(all, func(i, j int) bool { return all[i] < all[j] })
	ts := d.Block.Timestamp()
	var lo, hi int64
	if len(all)%2 == 1 {
		lo, hi = all[len(all)/2], all[len(all)/2]
	} else {
		lo, hi = all[len(all)/2-1], all[len(all)/2]
	}
	if ts < lo || ts > hi {
		c.violate("C18", "median", "timestamp-not-median", "node %d block %d: timestamp %d is not a median of the famous witnesses' times %v", n.idx, d.Block.Index(), ts, all)
		return
	}
	// Byzantine tolerance: liars fewer than a third of the round's validators
	nv := len(c.vs.at(rr))
	totalLiars := 0
	for _, k := range c.vs.at(rr) {
		if m := c.byPub[k]; m != nil && m.liar {
			totalLiars++
		}
	}
	if 3*totalLiars < nv && len(honest) > 0 {
		sort.Slice(honest, func(i, j int) bool { return honest[i] < honest[j] })
		if ts < honest[0] || ts > honest[len(honest)-1] {
			c.violate("C18", "honest-range", "timestamp-outside-honest-range", "node %d block %d: timestamp %d outside the honest famous witnesses' range [%d,%d] with %d liars among %d validators", n.idx, d.Block.Index(), ts, honest[0], honest[len(honest)-1], totalLiars, nv)
			return
		}
		if liars > 0 {
			c.stats.probe("c18-liar-among-famous-witnesses")
		}
	}
	c.stats.probe("c18-block-checked")
}

/*******************************************************************************
C09 block signatures and anchor
*******************************************************************************/

func verifySig(body *hg.BlockBody, validatorHex, sig string) bool {
	defer func() { recover() }()
	pub, err := decodeHex(validatorHex)
	if err != nil || len(pub) == 0 {
		return false
	}
	hash, err := body.Hash()
	if err != nil {
		return false
	}
	r, s, err := keys.DecodeSignature(sig)
	if err != nil || r == nil || s == nil {
		return false
	}
	pk := keys.ToPublicKey(pub)
	if pk == nil || pk.X == nil {
		return false
	}
	return keys.Verify(pk, hash, r, s)
}

func decodeHex(s string) ([]byte, error) {
	if len(s) < 2 {
		return nil, fmt.Errorf("short")
	}
	out := make([]byte, 0, len(s)/2)
	str := s[2:]
	if len(str)%2 != 0 {
		return nil, fmt.Errorf("odd")
	}
	for i := 0; i < len(str); i += 2 {
		var b byte
		for j := 0; j < 2; j++ {
			ch := str[i+j]
			var v byte
			switch {
			case ch >= '0' && ch <= '9':
				v = ch - '0'
			case ch >= 'a' && ch <= 'f':
				v = ch - 'a' + 10
			case ch >= 'A' && ch <= 'F':
				v = ch - 'A' + 10
			default:
				return nil, fmt.Errorf("bad hex")
			}
			b = b<<4 | v
		}
		out = append(out, b)
	}
	return out, nil
}

func (c *Cluster) checkC09(n *SimNode, full bool) {
	if !n.running() {
		return
	}
	h := n.core().Hashgraph()
	store := h.Store
	last := store.LastBlockIndex()
	from := 0
	if n.ffDone {
		from = n.cursor().ffAnchor
	}
	if !full && last-4 > from {
		from = last - 4
	}
	for i := from; i <= last; i++ {
		blk, err := store.GetBlock(i)
		if err != nil {
			continue
		}
		set := c.vs.at(blk.RoundReceived())
		for k, sig := range blk.Signatures {
			ck := fmt.Sprintf("%d/%d/%s/%s", n.epoch, i, k, sig)
			if n.sigChecked[ck] {
				continue
			}
			if !contains(set, k) {
				c.violate("C09", "signer-membership", "signature-by-non-validator-recorded", "node %d: block %d (round %d) records a signature by %s who is not a validator of that round", n.idx, i, blk.RoundReceived(), short(k))
				return
			}
			if !verifySig(&blk.Body, k, sig) {
				c.violate("C09", "signature-valid", "invalid-signature-recorded", "node %d: block %d records a signature by %s that does not verify against the node's own block body", n.idx, i, short(k))
				return
			}
			// attribution: the signature must have been emitted by that signer
			if origin, ok := c.emitted[fmt.Sprintf("%d/%s", i, sig)]; ok && origin != k {
				c.violate("C09", "attribution", "signature-misattributed", "node %d: block %d signature recorded for %s was emitted by %s", n.idx, i, short(k), short(origin))
				return
			}
			n.sigChecked[ck] = true
		}
	}
	// anchor
	blk, _, err := n.core().GetAnchorBlockWithFrame()
	if err == nil && blk != nil {
		set := c.vs.at(blk.RoundReceived())
		valid := 0
		for k, sig := range blk.Signatures {
			if contains(set, k) && verifySig(&blk.Body, k, sig) {
				valid++
			}
		}
		ok := moreThanThird(valid, len(set))
		if len(set) == 1 {
			ok = valid >= 1
		}
		if !ok {
			c.violate("C09", "anchor-trust", "anchor-under-signed", "node %d offers block %d as anchor with %d valid signatures of %d validators (needs more than a third)", n.idx, blk.Index(), valid, len(set))
			return
		}
		if blk.Index() < n.lastAnchor {
			c.violate("C09", "anchor-monotone", "anchor-moved-back", "node %d: anchor moved from block %d back to %d", n.idx, n.lastAnchor, blk.Index())
			return
		}
		n.lastAnchor = blk.Index()
		c.stats.probe("c09-anchor-checked")
	}
	// own signatures only over delivered bodies (incl. state hash)
	delivered := map[int]*Delivery{}
	for _, d := range n.app.log {
		if !d.Shadow && d.Epoch == n.epoch {
			delivered[d.Block.Index()] = d
		}
	}
	for _, bs := range n.core().SelfBlockSignatures() {
		d := delivered[bs.Index]
		if d == nil {
			c.violate("C09", "signs-only-delivered", "signed-undelivered-block", "node %d holds its own signature for block %d which it has not delivered to its application", n.idx, bs.Index)
			return
		}
		full := d.Block
		full.Body.StateHash = d.Resp.StateHash
		full.Body.InternalTransactionReceipts = d.Resp.InternalTransactionReceipts
		if !verifySig(&full.Body, n.pubHex, bs.Signature) {
			c.violate("C09", "signs-delivered-body", "signature-not-over-delivered-body", "node %d: its signature for block %d is not over the delivered body including the returned state hash", n.idx, bs.Index)
			return
		}
	}
}

// recordEmittedSignatures notes which creator gossiped which block signature
// (from the DAG record), for the attribution clause.
func (c *Cluster) recordEmittedSignatures() {
	for ; c.emitScanned < len(c.dag.order); c.emitScanned++ {
		e := c.dag.order[c.emitScanned]
		for _, bs := range e.Body.BlockSignatures {
			k := fmt.Sprintf("%d/%s", bs.Index, bs.Signature)
			if _, ok := c.emitted[k]; !ok {
				c.emitted[k] = e.Creator
			}
		}
	}
}

/*******************************************************************************
C13 fast-sync continuity
*******************************************************************************/

// noteGossipError: a fast-forwarded node that reports an insertion error for a
// received event (parent below its frame) is "stalled": the statement only
// promises continuity "for as long as it can insert the events it receives".
func (c *Cluster) noteGossipError(a *SimNode, err error) {
	if !a.ffDone || err == nil {
		return
	}
	msg := err.Error()
	for _, pat := range []string{"Other-parent not known", "not found", "Not Found", "Self-parent", "Too Late", "Skipped Index"} {
		if containsStr(msg, pat) {
			if !a.stalled {
				c.stats.probe("ff-node-stalled")
			}
			a.stalled = true
			return
		}
	}
}

func containsStr(s, sub string) bool {
	return len(sub) <= len(s) && (func() bool {
		for i := 0; i+len(sub) <= len(s); i++ {
			if s[i:i+len(sub)] == sub {
				return true
			}
		}
		return false
	})()
}

func (c *Cluster) checkC13() {
	// validator-set history of reset nodes for rounds >= anchor equals the model
	for _, n := range c.nodes {
		if !n.running() || !n.ffDone {
			continue
		}
		h := n.core().Hashgraph()
		lb := h.SimRoundLowerBound()
		if lb < 0 {
			continue
		}
		maxR := h.Store.LastRound()
		for _, r := range c.vs.rounds {
			if r > maxR {
				maxR = r
			}
		}
		// only changes caused by blocks this node knows about can be reflected
		lastIdx := n.node.GetLastBlockIndex()
		known := newVSModel(c.vs.sets[0])
		for i := 0; i <= lastIdx; i++ {
			if b, ok := c.chainBody[i]; ok {
				known.apply(b)
			}
		}
		for r := lb; r <= maxR+7; r++ {
			got, err := n.node.GetValidatorSet(r)
			if err != nil {
				continue
			}
			want := known.at(r)
			if !sameList(pubKeysOf(got), want) && debugTrace {
				ab, _, aerr := n.core().GetAnchorBlockWithFrame()
				ai := -9
				if ab != nil {
					ai = ab.Index()
				}
				fmt.Fprintf(os.Stderr, "  C13 debug: node %d store last block %d, anchor %d (err %v), app log %d entries, canonical chain has %d blocks, lcr %v\n", n.idx, h.Store.LastBlockIndex(), ai, aerr, len(n.app.log), len(c.chainBody), h.LastConsensusRound)
				for i := 0; i < 12; i++ {
					if b, err := h.Store.GetBlock(i); err == nil {
						fmt.Fprintf(os.Stderr, "     node %d has block %d rr %d receipts %d\n", n.idx, i, b.RoundReceived(), len(b.InternalTransactionReceipts()))
					}
				}
			}
			if !sameList(pubKeysOf(got), want) {
				c.violate("C13", "validator-history", "ff-validator-set-differs", "fast-forwarded node %d (anchor round %d, last block %d): validator set for round %d is %v, the committed blocks up to its last block give %v", n.idx, lb, lastIdx, r, shortList(pubKeysOf(got)), shortList(want))
				return
			}
		}
		c.stats.probe("c13-ff-history-checked")
	}
	// frames of the same round computed by different honest nodes are identical
	type fh struct {
		node int
		hash string
	}
	seen := map[int]fh{}
	for _, n := range c.nodes {
		if !n.running() {
			continue
		}
		h := n.core().Hashgraph()
		if h.LastConsensusRound == nil {
			continue
		}
		lo := 0
		if n.ffDone {
			lo = h.SimRoundLowerBound()
		}
		for r := lo; r <= *h.LastConsensusRound; r++ {
			if n.frameChecked[r] {
				continue
			}
			f, err := h.Store.GetFrame(r)
			if err != nil {
				continue
			}
			hash, err := f.Hash()
			if err != nil {
				continue
			}
			hs := fmt.Sprintf("%x", hash[:10])
			if prev, ok := c.frameHashes[r]; ok {
				if prev.hash != hs {
					diff := ""
					if other := c.nodeAt(prev.node); other != nil && other.running() {
						if of, err := other.core().Hashgraph().Store.GetFrame(r); err == nil {
							diff = frameDiff(f, of)
						}
					}
					c.violate("C13", "frames-identical", "frame-hash-differs", "round %d: node %d (ff=%v) computed frame hash %s, node %d computed %s; differing parts: %s", r, n.idx, n.ffDone, hs, prev.node, prev.hash, diff)
					return
				}
			} else {
				c.frameHashes[r] = frameRef{node: n.idx, hash: hs}
			}
			n.frameChecked[r] = true
		}
	}
	_ = seen
}

type frameRef struct {
	node int
	hash string
}

// frameDiff names the parts of two frames that differ (diagnostics only).
func frameDiff(a, b *hg.Frame) string {
	out := ""
	if a.Round != b.Round {
		out += fmt.Sprintf("Round %d/%d; ", a.Round, b.Round)
	}
	if a.Timestamp != b.Timestamp {
		out += fmt.Sprintf("Timestamp %d/%d; ", a.Timestamp, b.Timestamp)
	}
	if !sameList(pubKeysOf(a.Peers), pubKeysOf(b.Peers)) {
		out += fmt.Sprintf("Peers %v/%v; ", shortList(pubKeysOf(a.Peers)), shortList(pubKeysOf(b.Peers)))
	}
	if len(a.Events) != len(b.Events) {
		out += fmt.Sprintf("Events %d/%d; ", len(a.Events), len(b.Events))
		inB := map[string]bool{}
		for _, e := range b.Events {
			inB[e.Core.Hex()] = true
		}
		inA := map[string]bool{}
		for _, e := range a.Events {
			inA[e.Core.Hex()] = true
			if !inB[e.Core.Hex()] {
				out += fmt.Sprintf("only-in-first: creator ..%s index %d round %d lamport %d sp=%v op=%v; ", e.Core.Creator()[len(e.Core.Creator())-6:], e.Core.Index(), e.Round, e.LamportTimestamp, e.Core.SelfParent() != "", e.Core.OtherParent() != "")
			}
		}
		for _, e := range b.Events {
			if !inA[e.Core.Hex()] {
				out += fmt.Sprintf("only-in-second: creator ..%s index %d round %d lamport %d; ", e.Core.Creator()[len(e.Core.Creator())-6:], e.Core.Index(), e.Round, e.LamportTimestamp)
			}
		}
	} else {
		for i := range a.Events {
			x, y := a.Events[i], b.Events[i]
			if x.Core.Hex() != y.Core.Hex() || x.Round != y.Round || x.LamportTimestamp != y.LamportTimestamp || x.Witness != y.Witness {
				out += fmt.Sprintf("Event[%d] %s r%d lt%d w%v / %s r%d lt%d w%v; ", i, short(x.Core.Hex()), x.Round, x.LamportTimestamp, x.Witness, short(y.Core.Hex()), y.Round, y.LamportTimestamp, y.Witness)
				break
			}
		}
	}
	ka, kb := []string{}, []string{}
	for k := range a.Roots {
		ka = append(ka, k)
	}
	for k := range b.Roots {
		kb = append(kb, k)
	}
	sort.Strings(ka)
	sort.Strings(kb)
	if !sameList(ka, kb) {
		out += fmt.Sprintf("Roots keys %v/%v; ", shortList(ka), shortList(kb))
		for _, k := range ka {
			if !contains(kb, k) {
				out += fmt.Sprintf("extra root %s has %d events; ", k[len(k)-6:], len(a.Roots[k].Events))
			}
		}
		for _, k := range kb {
			if !contains(ka, k) {
				out += fmt.Sprintf("missing root %s has %d events; ", k[len(k)-6:], len(b.Roots[k].Events))
			}
		}
	} else {
		for _, k := range ka {
			ra, rb := a.Roots[k], b.Roots[k]
			if len(ra.Events) != len(rb.Events) {
				out += fmt.Sprintf("Root[%s] %d/%d events; ", k[len(k)-6:], len(ra.Events), len(rb.Events))
				continue
			}
			for i := range ra.Events {
				x, y := ra.Events[i], rb.Events[i]
				if x.Core.Hex() != y.Core.Hex() || x.Round != y.Round || x.LamportTimestamp != y.LamportTimestamp || x.Witness != y.Witness {
					out += fmt.Sprintf("Root[%s][%d] %s r%d lt%d w%v / %s r%d lt%d w%v; ", k[len(k)-6:], i, short(x.Core.Hex()), x.Round, x.LamportTimestamp, x.Witness, short(y.Core.Hex()), y.Round, y.LamportTimestamp, y.Witness)
					break
				}
			}
		}
	}
	ra, rb := []int{}, []int{}
	for k := range a.PeerSets {
		ra = append(ra, k)
	}
	for k := range b.PeerSets {
		rb = append(rb, k)
	}
	sort.Ints(ra)
	sort.Ints(rb)
	if fmt.Sprint(ra) != fmt.Sprint(rb) {
		out += fmt.Sprintf("PeerSets rounds %v/%v; ", ra, rb)
	} else {
		for _, k := range ra {
			if !sameList(pubKeysOf(a.PeerSets[k]), pubKeysOf(b.PeerSets[k])) {
				out += fmt.Sprintf("PeerSets[%d] differ; ", k)
			}
		}
	}
	if out == "" {
		out = "(no structural difference found: encoding-level difference)"
	}
	return out
}

// classifyC13: a reset node whose anchor frame lacks the root of a participant
// that is not yet effective at the anchor round but already has committed
// events (its join request was answered through the "already present" path, so
// it started creating events before its effective round) re-commits those
// events. That is one listed finding; everything else keeps its own key.
func (c *Cluster) classifyC13(v *Violation) {
	for _, n := range c.nodes {
		if !n.running() || !n.ffDone {
			continue
		}
		lb := n.core().Hashgraph().SimRoundLowerBound()
		if lb < 0 {
			continue
		}
		var full *SimNode
		for _, m := range c.nodes {
			// the most advanced full-history node
			if m.running() && !m.ffDone && !m.isObserver && (full == nil || m.node.GetLastBlockIndex() > full.node.GetLastBlockIndex()) {
				full = m
			}
		}
		if full == nil {
			return
		}
		store := full.core().Hashgraph().Store
		// (b) the reset node lacks a witness of the round it was reset to (or the
		// one before): its roots only go ROOT_DEPTH events back per creator
		nstore := n.core().Hashgraph().Store
		// "holds" a witness: it is registered as a witness of that round in the
		// reset hashgraph (a persistent node's database still returns pre-reset
		// events that are no part of the hashgraph it was reset to)
		holds := func(r int, w string) bool {
			if _, err := nstore.GetEvent(w); err != nil {
				return false
			}
			rin, err := nstore.GetRound(r)
			if err != nil {
				return false
			}
			for _, x := range rin.Witnesses() {
				if x == w {
					return true
				}
			}
			return false
		}
		for r := lb - 1; r <= lb; r++ {
			if r < 0 {
				continue
			}
			ri, err := store.GetRound(r)
			if err != nil {
				continue
			}
			ws := ri.Witnesses()
			sort.Strings(ws)
			for _, w := range ws {
				if !holds(r, w) {
					v.Key = "reset-node-lacks-witness-beyond-root-depth"
					v.Message += fmt.Sprintf(" [class: reset node %d (anchor round %d) does not hold witness %s of round %d: the frame's roots only reach %d events back per creator, so rounds of new events are computed from an incomplete witness list]", n.idx, lb, short(w), r, hg.ROOT_DEPTH)
					return
				}
			}
		}
		// (c) same cause seen from an event: find an event whose round differs
		// and look for a missing witness of its parent round
		for _, de := range c.dag.order {
			if _, err := nstore.GetEvent(de.Hash); err != nil {
				continue
			}
			if _, err := store.GetEvent(de.Hash); err != nil {
				continue
			}
			// (the round as the node computes it: the field of a frame event or of
			// an event reloaded from the database may be unset)
			rn, err1 := n.core().Hashgraph().SimRoundOf(de.Hash)
			rf, err2 := full.core().Hashgraph().SimRoundOf(de.Hash)
			if err1 != nil || err2 != nil || rn < 0 || rf < 0 || rn == rf {
				continue
			}
			en, ef := roundHolder(rn), roundHolder(rf)
			if debugTrace {
				fmt.Fprintf(os.Stderr, "  C13 classify: event %s (n%d#%d): reset node %d round %d, full node %d round %d; anchor round %d\n", short(de.Hash), c.byPub[de.Creator].idx, de.Index, n.idx, en.SimRound(), full.idx, ef.SimRound(), lb)
				pr := ef.SimRound() - 1
				if ri, err := store.GetRound(pr); err == nil {
					for _, w := range ri.Witnesses() {
						dw := c.dag.events[w]
						_, errn := nstore.GetEvent(w)
						wn, _ := n.core().Hashgraph().SimWitness(w)
						rn := -9
						if evn, err := nstore.GetEvent(w); err == nil {
							rn = evn.SimRound()
						}
						if dw != nil {
							fmt.Fprintf(os.Stderr, "     round %d witness %s (n%d#%d): at reset node present=%v round=%d witness=%v\n", pr, short(w), c.byPub[dw.Creator].idx, dw.Index, errn == nil, rn, wn)
						}
					}
				}
				if rin, err := nstore.GetRound(pr); err == nil {
					fmt.Fprintf(os.Stderr, "     reset node lists %d witnesses in round %d\n", len(rin.Witnesses()), pr)
				} else {
					fmt.Fprintf(os.Stderr, "     reset node has no round %d: %v\n", pr, err)
				}
			}
			for r := ef.SimRound() - 1; r <= ef.SimRound(); r++ {
				if r < 0 {
					continue
				}
				ri, err := store.GetRound(r)
				if err != nil {
					continue
				}
				ws := ri.Witnesses()
				sort.Strings(ws)
				for _, w := range ws {
					if !holds(r, w) {
						v.Key = "reset-node-lacks-witness-beyond-root-depth"
						v.Message += fmt.Sprintf(" [class: reset node %d (anchor round %d) gives event %s round %d (full-history nodes: %d) because it does not hold witness %s of round %d: the frame holds at most %d consensus events back per creator]", n.idx, lb, short(de.Hash), en.SimRound(), ef.SimRound(), short(w), r, hg.ROOT_DEPTH)
						return
					}
				}
			}
			// (keep looking: the first differing event may only inherit the difference)
		}
		for _, p := range store.RepertoireByID() {
			fr, ok := store.FirstRound(p.ID())
			if !ok || fr <= lb {
				continue
			}
			h, err := store.ParticipantEvent(p.PubKeyString(), 0)
			if err != nil {
				continue
			}
			ev, err := store.GetEvent(h)
			if err != nil {
				continue
			}
			if rr := ev.SimRoundReceived(); rr >= 0 && rr <= lb {
				v.Key = "anchor-frame-lacks-root-of-pending-joiner"
				v.Message += fmt.Sprintf(" [class: participant ..%s becomes a validator at round %d, after the anchor round %d of reset node %d, but its first event was already committed in round %d; the anchor frame carries no root for it]", p.PubKeyString()[len(p.PubKeyString())-6:], fr, lb, n.idx, rr)
				return
			}
		}
	}
}

/*******************************************************************************
C10 quorum monitor ("counted in its quorums"): round advancement and round
decisions are recomputed from the harness's own reachability over its DAG
record and its own validator-set model and arithmetic.
*******************************************************************************/

// stronglySeesModel: x strongly sees w w.r.t. member set V iff more than two
// thirds of V have an event on a path from w to x (true reachability).
func (c *Cluster) stronglySeesModel(x, w string, V []string) bool {
	ax := c.dag.ancestors(x)
	if ax == nil {
		return false
	}
	cnt := 0
	for _, m := range V {
		idx, ok := ax[m]
		if !ok {
			continue
		}
		z, ok := c.dag.byCI[m][idx]
		if !ok {
			continue
		}
		if c.dag.isAncestor(w, z) {
			cnt++
		}
	}
	return cnt >= superMajority(len(V))
}

// stronglySeesCoordModel: strongly-see as babble's event coordinates define it
// (see refDag.coordCount): validator m counts if its first event e that
// descends from w is an ancestor of x and no witness lies on w's creator's
// chain between w (exclusive) and e's last ancestor on that chain (inclusive).
// Votes are collected with this relation; round increments never meet the
// difference (their paths do not cross a later round).
func (c *Cluster) stronglySeesCoordModel(x, w string, V []string, isWitness func(string) bool) bool {
	ax := c.dag.ancestors(x)
	ew := c.dag.events[w]
	if ax == nil || ew == nil {
		return false
	}
	q := ew.Creator
	cnt := 0
	for _, m := range V {
		k, ok := ax[m]
		if !ok {
			continue
		}
		z, ok := c.dag.byCI[m][k]
		if !ok || !c.dag.isAncestor(w, z) {
			continue
		}
		first := z
		for i := k - 1; i >= 0; i-- {
			e, ok := c.dag.byCI[m][i]
			if !ok || !c.dag.isAncestor(w, e) {
				break
			}
			first = e
		}
		a := c.dag.ancestors(first)[q]
		clear := true
		for t := ew.Index + 1; t <= a; t++ {
			if h, ok := c.dag.byCI[q][t]; ok && isWitness(h) {
				clear = false
				break
			}
		}
		if clear {
			cnt++
		}
	}
	return cnt >= superMajority(len(V))
}

func (c *Cluster) checkQuorums(n *SimNode) {
	if !n.running() || n.ffDone || n.isObserver || len(c.dag.forks) > 0 {
		return
	}
	h := n.core().Hashgraph()
	store := h.Store
	if n.quorumChecked == nil {
		n.quorumChecked = map[string]bool{}
	}
	budget := 400
	for _, de := range c.dag.order {
		if budget <= 0 {
			break
		}
		if n.quorumChecked[de.Hash] {
			continue
		}
		ev, err := store.GetEvent(de.Hash)
		if err != nil || ev.SimRound() < 0 {
			continue
		}
		n.quorumChecked[de.Hash] = true
		budget--
		// parent round
		pr := -1
		for _, p := range []string{de.SelfP, de.OtherP} {
			if p == "" {
				continue
			}
			pe, err := store.GetEvent(p)
			if err != nil || pe.SimRound() < 0 {
				pr = -2
				break
			}
			if pe.SimRound() > pr {
				pr = pe.SimRound()
			}
		}
		if pr == -2 {
			continue
		}
		want := 0
		if pr >= 0 {
			V := c.vs.at(pr)
			ri, err := store.GetRound(pr)
			if err != nil {
				continue
			}
			ss := 0
			for _, w := range ri.Witnesses() {
				if w == de.Hash {
					// the event itself may by now be a witness of its parent round (it
					// inherited the round from a non-member's event): it does not count
					continue
				}
				if c.dag.events[w] == nil {
					ss = -1
					break
				}
				if c.stronglySeesModel(de.Hash, w, V) {
					ss++
				}
			}
			if ss < 0 {
				continue
			}
			want = pr
			if ss >= superMajority(len(V)) {
				want = pr + 1
			}
		}
		if ev.SimRound() != want && c.lateSetChangeFor(n, maxInt(pr, 0)+1, de.FirstStep, de.Hash) {
			c.violate("C10", "quorum", "set-change-in-force-at-a-round-that-already-has-events", "node %d gives event %s round %d, the validator-set model %d: a set change in force at that round was committed by this node only after the event existed", n.idx, short(de.Hash), ev.SimRound(), want)
			return
		}
		if ev.SimRound() != want && debugTrace {
			fmt.Fprintf(os.Stderr, "  quorum debug: node %d event %s (n%d#%d) round %d want %d; model rounds %v; ", n.idx, short(de.Hash), c.byPub[de.Creator].idx, de.Index, ev.SimRound(), want, c.vs.rounds)
			if sets, err := store.GetAllPeerSets(); err == nil {
				for rr, ps := range sets {
					fmt.Fprintf(os.Stderr, "node set from %d: %d; ", rr, len(ps))
				}
			}
			fmt.Fprintf(os.Stderr, "\n")
			for i := 0; i <= de.Index+1; i++ {
				if hh, ok := c.dag.byCI[de.Creator][i]; ok {
					if e2, err := store.GetEvent(hh); err == nil {
						w2, _ := h.SimWitness(hh)
						fmt.Fprintf(os.Stderr, "      n%d#%d round %d witness %v\n", c.byPub[de.Creator].idx, i, e2.SimRound(), w2)
					}
				}
			}
		}
		if ev.SimRound() != want {
			c.violate("C10", "quorum", "round-not-by-two-thirds-of-round-set", "node %d gives event %s round %d; by true reachability and the validator set of its parent round %d (%d members, more than two thirds = %d) it is %d", n.idx, short(de.Hash), ev.SimRound(), pr, len(c.vs.at(maxInt(pr, 0))), superMajority(len(c.vs.at(maxInt(pr, 0)))), want)
			return
		}
		c.stats.probe("c10-quorum-round-checked")
	}
	// decided rounds: at least a supermajority of decided witnesses, all of them
	// by members of the round's set, each the first event of its creator in the round
	lr := store.LastRound()
	for r := 0; r <= lr; r++ {
		if n.roundChecked[r] {
			continue
		}
		ri, err := store.GetRound(r)
		if err != nil || !ri.SimDecided() {
			continue
		}
		V := c.vs.at(r)
		decided := 0
		seen := map[string]bool{}
		for _, w := range ri.Witnesses() {
			de := c.dag.events[w]
			if de == nil {
				continue
			}
			if !contains(V, de.Creator) && c.lateSetChangeFor(n, r, de.FirstStep, w) {
				c.violate("C10", "quorum", "set-change-in-force-at-a-round-that-already-has-events", "node %d: decided round %d counts witness %s of %s who is not in the round's validator set; the set change was committed by this node only after that event existed", n.idx, r, short(w), short(de.Creator))
				return
			}
			if !contains(V, de.Creator) {
				c.violate("C10", "quorum", "non-member-witness", "node %d: decided round %d counts witness %s of %s who is not in the round's validator set", n.idx, r, short(w), short(de.Creator))
				return
			}
			if seen[de.Creator] {
				c.violate("C10", "quorum", "two-witnesses-of-one-creator", "node %d: round %d has two witnesses of creator %s", n.idx, r, short(de.Creator))
				return
			}
			seen[de.Creator] = true
			if _, _, f := ri.SimFame(w); f != 0 {
				decided++
			}
		}
		if decided < superMajority(len(V)) {
			c.violate("C10", "quorum", "round-decided-below-two-thirds", "node %d: round %d is decided with %d decided witnesses; its validator set has %d members (more than two thirds = %d)", n.idx, r, decided, len(V), superMajority(len(V)))
			return
		}
		if n.roundChecked == nil {
			n.roundChecked = map[int]bool{}
		}
		n.roundChecked[r] = true
		c.stats.probe("c10-quorum-decided-round-checked")
	}
	c.checkFameQuorums(n)
}

// refMiddleBit: the coin of a coin round is the middle byte of the voting
// witness's hash (zero: no, anything else: yes).
func refMiddleBit(hexHash string) bool {
	b, err := decodeHex(hexHash)
	if err != nil {
		return true
	}
	if len(b) > 0 && b[len(b)/2] == 0 {
		return false
	}
	return true
}

// fameByModel recomputes, from true reachability over the harness's DAG record
// and the validator-set model, what the witnesses the node knows in rounds
// r+1..lr decide about witness x of round r. ok=false: not computable (rounds
// evicted, witnesses outside the record). decided=false: nobody decides yet.
func (c *Cluster) fameByModel(store hg.Store, isWitness func(string) bool, x string, r, lr int) (ok, decided, v bool, by string, j int) {
	coin := int(hg.COIN_ROUND_FREQ)
	votes := map[string]bool{}
	var prev []string
	for j = r + 1; j <= lr; j++ {
		rj, err := store.GetRound(j)
		if err != nil {
			return false, false, false, "", j
		}
		wj := rj.Witnesses()
		sort.Strings(wj)
		for _, y := range wj {
			if c.dag.events[y] == nil {
				return false, false, false, "", j
			}
		}
		Vj := c.vs.at(j)
		Vp := c.vs.at(j - 1)
		diff := j - r
		for _, y := range wj {
			if diff == 1 {
				votes[y] = c.dag.isAncestor(x, y)
				if debugTrace {
					fmt.Fprintf(os.Stderr, "  fame model: x=%s r=%d j=%d y=%s (creator n%d) sees=%v\n", short(x), r, j, short(y), c.byPub[c.dag.events[y].Creator].idx, votes[y])
				}
				continue
			}
			yays, nays := 0, 0
			for _, w := range prev {
				if c.stronglySeesCoordModel(y, w, Vp, isWitness) {
					if votes[w] {
						yays++
					} else {
						nays++
					}
				}
			}
			vv, t := false, nays
			if yays >= nays {
				vv, t = true, yays
			}
			if debugTrace {
				fmt.Fprintf(os.Stderr, "  fame model: x=%s r=%d j=%d y=%s (creator n%d) yays=%d nays=%d |Vj|=%d |Vj-1|=%d prev=%d\n", short(x), r, j, short(y), c.byPub[c.dag.events[y].Creator].idx, yays, nays, len(Vj), len(Vp), len(prev))
			}
			// votes are cast by round j-1: more than two thirds of its set as well
			need := superMajority(len(Vj))
			if p := superMajority(len(Vp)); p > need {
				need = p
			}
			if diff%coin != 0 {
				votes[y] = vv
				if t >= need {
					if decided && v != vv {
						// two deciders of one round disagree: cannot happen in a fork-free DAG
						return false, false, false, "", j
					}
					decided, v, by = true, vv, y
				}
			} else if t >= need {
				votes[y] = vv
			} else {
				votes[y] = refMiddleBit(y)
			}
		}
		if decided {
			return true, true, v, by, j
		}
		prev = wj
	}
	return true, false, false, "", lr
}

// checkFameQuorums: every fame decision of the node is the decision of more
// than two thirds of the deciding round's validator set, votes being collected
// through the previous round's set; and a decision that the node's own events
// support has been taken.
func (c *Cluster) checkFameQuorums(n *SimNode) {
	h := n.core().Hashgraph()
	store := h.Store
	if n.fameChecked == nil {
		n.fameChecked = map[string]bool{}
	}
	lr := store.LastRound()
	budget := 60
	wcache := map[string]bool{}
	isWitness := func(hash string) bool {
		if v, ok := wcache[hash]; ok {
			return v
		}
		v, err := h.SimWitness(hash)
		if err != nil {
			v = false
		}
		wcache[hash] = v
		return v
	}
	for r := 0; r <= lr && budget > 0; r++ {
		ri, err := store.GetRound(r)
		if err != nil {
			continue
		}
		ws := ri.Witnesses()
		sort.Strings(ws)
		for _, x := range ws {
			if n.fameChecked[x] || c.dag.events[x] == nil {
				continue
			}
			_, _, fame := ri.SimFame(x)
			if fame == 0 && ri.SimDecided() {
				// a witness that arrived after its round was decided is never voted on
				continue
			}
			budget--
			ok, decided, v, by, j := c.fameByModel(store, isWitness, x, r, lr)
			if !ok {
				c.stats.probe("c10-fame-not-computable")
				if fame != 0 {
					n.fameChecked[x] = true
				}
				continue
			}
			if debugTrace && ((fame != 0) != decided || (decided && (fame == 1) != v)) {
				for jj := r + 1; jj <= lr; jj++ {
					rj, err := store.GetRound(jj)
					rp, err2 := store.GetRound(jj - 1)
					if err != nil || err2 != nil {
						continue
					}
					for _, y := range rj.Witnesses() {
						ey, _ := store.GetEvent(y)
						for _, w := range rp.Witnesses() {
							ew, _ := store.GetEvent(w)
							if ey == nil || ew == nil {
								continue
							}
							cnt := 0
							for _, p := range c.vs.at(jj - 1) {
								la, ok1 := ey.SimLastAncestors()[p]
								fd, ok2 := ew.SimFirstDescendants()[p]
								if ok1 && ok2 && la.Index >= fd.Index {
									cnt++
								}
							}
							if (cnt >= superMajority(len(c.vs.at(jj-1)))) != c.stronglySeesCoordModel(y, w, c.vs.at(jj-1), isWitness) {
								dy, dw := c.dag.events[y], c.dag.events[w]
								fmt.Fprintf(os.Stderr, "  MISMATCH y=n%d#%d w=n%d#%d\n", c.byPub[dy.Creator].idx, dy.Index, c.byPub[dw.Creator].idx, dw.Index)
								for _, p := range c.vs.at(jj - 1) {
									la, ok1 := ey.SimLastAncestors()[p]
									fd, ok2 := ew.SimFirstDescendants()[p]
									ax := c.dag.ancestors(y)
									fmt.Fprintf(os.Stderr, "     validator n%d: y.lastAncestor=%d(%v) w.firstDescendant=%d(%v) model lastAncestor=%d\n", c.byPub[p].idx, la.Index, ok1, fd.Index, ok2, ax[p])
								}
							}
							fmt.Fprintf(os.Stderr, "  node %d coords: round %d witness %s (n%d) -> round %d witness %s (n%d): %d validators on paths; model strongly sees: %v\n", n.idx, jj, short(y), c.byPub[c.dag.events[y].Creator].idx, jj-1, short(w), c.byPub[c.dag.events[w].Creator].idx, cnt, c.stronglySeesCoordModel(y, w, c.vs.at(jj-1), isWitness))
						}
					}
				}
			}
			if ((fame != 0) != decided || (decided && (fame == 1) != v)) && c.lateSetChangeFor(n, lr, c.dag.events[x].FirstStep, x) {
				c.violate("C10", "quorum", "set-change-in-force-at-a-round-that-already-has-events", "node %d: the fame of witness %s (round %d) differs from what the per-round validator sets give; a set change in force in the rounds concerned was committed by this node only after that witness existed", n.idx, short(x), r)
				return
			}
			switch {
			case fame != 0 && !decided:
				c.violate("C10", "quorum", "fame-decided-below-two-thirds", "node %d has decided the fame of witness %s (round %d) as %v, but among the witnesses it knows up to round %d none collects more than two thirds of its round's validator set in votes", n.idx, short(x), r, fame == 1, lr)
				return
			case fame != 0 && decided && (fame == 1) != v:
				c.violate("C10", "quorum", "fame-differs-from-round-sets", "node %d has decided the fame of witness %s (round %d) as %v; counted with the validator sets of the rounds concerned, witness %s of round %d decides %v", n.idx, short(x), r, fame == 1, short(by), j, v)
				return
			case fame == 0 && decided:
				c.violate("C10", "quorum", "fame-undecided-despite-two-thirds", "node %d has not decided the fame of witness %s (round %d) although witness %s of round %d, which it holds, collects more than two thirds of that round's validator set (%v)", n.idx, short(x), r, short(by), j, v)
				return
			}
			if fame != 0 {
				n.fameChecked[x] = true
				c.stats.probe("c10-fame-decision-checked")
				if len(c.vs.at(j)) != len(c.vs.at(j-1)) || len(c.vs.at(j)) != len(c.vs.at(r)) {
					c.stats.probe("c10-fame-decision-across-set-change-checked")
				}
			}
		}
	}
}

// lateSetChange: is a validator-set change in force at round r that node n
// committed only after an event first seen at step firstStep existed? (The
// change then applied to a round that already had events at this node: the open
// finding "set-change-in-force-at-a-round-that-already-has-events".)
func (c *Cluster) lateSetChange(n *SimNode, r int, firstStep int) bool {
	return c.lateSetChangeFor(n, r, firstStep, "")
}

// lateSetChangeFor: as lateSetChange; if the event is given and the node still
// knows in which position it inserted it, that position is compared with the
// number of events the node had inserted when it committed the block (exact);
// otherwise scheduler steps are compared (a lagging node may then look late).
func (c *Cluster) lateSetChangeFor(n *SimNode, r int, firstStep int, event string) bool {
	model := c.nodeModel(n)
	if model == nil {
		return false
	}
	pos := -1
	if event != "" && n.running() {
		if ev, err := n.core().Hashgraph().Store.GetEvent(event); err == nil {
			pos = ev.SimTopologicalIndex()
		}
	}
	for _, mr := range model.rounds {
		if mr > r || mr == 0 {
			continue
		}
		cb, ok := model.cause[mr]
		if !ok || cb < 0 {
			continue
		}
		late := true
		for _, d := range n.app.log {
			if d.Shadow || d.Epoch != n.epoch || d.Block.Index() != cb {
				continue
			}
			if pos > 0 && d.Topo >= 0 {
				if d.Topo <= pos {
					late = false // committed before the event was inserted
				}
			} else if d.Step < firstStep {
				late = false
			}
		}
		if late {
			return true
		}
	}
	return false
}

// roundHolder lets the classification code keep its shape (x.SimRound()).
type roundHolder int

func (r roundHolder) SimRound() int { return int(r) }

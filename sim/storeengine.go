package sim

import (
	"bytes"
	"fmt"
	"io"
	"os"
	"path/filepath"
	"sort"
	"strings"

	cm "github.com/mosaicnetworks/babble/src/common"
	"github.com/mosaicnetworks/babble/src/config"
	hg "github.com/mosaicnetworks/babble/src/hashgraph"
	"github.com/mosaicnetworks/babble/src/peers"
)

/*******************************************************************************
E3 store engine (C16): the sequence of store writes a real node issues during
a simulated history is captured by a recording decorator and replayed onto a
real BadgerStore under eviction-forcing cache sizes, close/reopen, kills at
store points (torn tails) and injected commit errors; every read is compared
with a trivially correct map model.
*******************************************************************************/

type storeOp struct {
	kind  string // event | block | round | frame | peerset | consensus
	key   string
	round int
	data  []byte
	peers []*peers.Peer
}

// recStore decorates a Store and records every write.
type recStore struct {
	hg.Store
	ops []*storeOp
}

func (r *recStore) SetEvent(ev *hg.Event) error {
	err := r.Store.SetEvent(ev)
	if err == nil {
		raw, _ := ev.MarshalDB()
		r.ops = append(r.ops, &storeOp{kind: "event", key: ev.Hex(), data: raw})
	}
	return err
}

func (r *recStore) SetBlock(b *hg.Block) error {
	err := r.Store.SetBlock(b)
	if err == nil {
		raw, _ := b.Marshal()
		r.ops = append(r.ops, &storeOp{kind: "block", round: b.Index(), data: raw})
	}
	return err
}

func (r *recStore) SetRound(i int, ri *hg.RoundInfo) error {
	err := r.Store.SetRound(i, ri)
	if err == nil {
		raw, _ := ri.Marshal()
		r.ops = append(r.ops, &storeOp{kind: "round", round: i, data: raw})
	}
	return err
}

func (r *recStore) SetFrame(f *hg.Frame) error {
	err := r.Store.SetFrame(f)
	if err == nil {
		raw, _ := f.Marshal()
		r.ops = append(r.ops, &storeOp{kind: "frame", round: f.Round, data: raw})
	}
	return err
}

func (r *recStore) SetPeerSet(round int, ps *peers.PeerSet) error {
	err := r.Store.SetPeerSet(round, ps)
	if err == nil {
		r.ops = append(r.ops, &storeOp{kind: "peerset", round: round, peers: clonePeers(ps.Peers)})
	}
	return err
}

func (r *recStore) AddConsensusEvent(ev *hg.Event) error {
	err := r.Store.AddConsensusEvent(ev)
	if err == nil {
		r.ops = append(r.ops, &storeOp{kind: "consensus", key: ev.Hex()})
	}
	return err
}

// storeModel is the reference: plain maps fed with the same writes.
type storeModel struct {
	events    map[string][]byte
	order     []string            // first-write order of events (topological listing)
	byCreator map[string][]string // creator -> hashes by index
	blocks    map[int][]byte
	rounds    map[int][]byte
	frames    map[int][]byte
	peersets  map[int][]string
	repert    map[string]bool
	// keys whose last write failed by injection: old or new value acceptable
	doubt map[string][][]byte
}

func newStoreModel() *storeModel {
	return &storeModel{events: map[string][]byte{}, byCreator: map[string][]string{}, blocks: map[int][]byte{}, rounds: map[int][]byte{},
		frames: map[int][]byte{}, peersets: map[int][]string{}, repert: map[string]bool{}, doubt: map[string][][]byte{}}
}

func eventFromDB(raw []byte) *hg.Event {
	ev := new(hg.Event)
	if err := ev.UnmarshalDB(raw); err != nil {
		panic(harnessError{"UnmarshalDB: " + err.Error()})
	}
	return ev
}

type storeRun struct {
	c                  *Cluster
	r                  *RNG
	path               string
	cache              int
	sut                *hg.BadgerStore
	model              *storeModel
	applied            int
	reopens            int
	conf               *config.Config
	failNext           bool
	crashAt            int
	points             int
	preSize            int64
	killed             bool
	killTorn           bool
	killPhase          string
	listingsUnreliable bool
	failedEvents       map[string]bool // events whose first write met an injected commit error and that were not written again yet
	failedForGood      bool            // an update of an already stored event failed: the listings stay incomparable
	sizeAtOpen         int64
	wipeExpected       bool
}

func (s *storeRun) open() {
	bs, err := hg.NewBadgerStore(s.cache, s.path, false, s.conf.Logger())
	if err != nil {
		s.c.violate("C16", "reopen", "store-cannot-be-reopened", "the database cannot be reopened after %d operations: %v", s.applied, err)
		return
	}
	s.sut = bs
	_, s.sizeAtOpen = vlogSize(s.path)
}

// apply performs one captured write on the store under test and on the model.
func (s *storeRun) apply(op *storeOp) {
	progress.Add(1)
	if abortRun.Load() {
		return // wall-clock guard: the run is being abandoned
	}
	m := s.model
	var err error
	switch op.kind {
	case "event":
		ev := eventFromDB(op.data)
		err = s.sut.SetEvent(ev)
		if err == nil || s.killed {
			if _, seen := m.events[op.key]; !seen && err == nil {
				m.order = append(m.order, op.key)
				cr := ev.Creator()
				m.byCreator[cr] = append(m.byCreator[cr], op.key)
				if s.failedEvents[op.key] {
					// first successful write of an event whose earlier write met an
					// injected commit error: it takes its place in the listings (by
					// topological index / by index), which are comparable again once
					// no failed event is left
					delete(s.failedEvents, op.key)
					s.c.stats.probe("c16-event-written-again-after-commit-error")
					topo := func(h string) int {
						if h == op.key {
							return ev.SimTopologicalIndex()
						}
						return eventFromDB(m.events[h]).SimTopologicalIndex()
					}
					idx := func(h string) int {
						if h == op.key {
							return ev.Index()
						}
						return eventFromDB(m.events[h]).Index()
					}
					sort.SliceStable(m.order, func(i, j int) bool { return topo(m.order[i]) < topo(m.order[j]) })
					l := m.byCreator[cr]
					sort.SliceStable(l, func(i, j int) bool { return idx(l[i]) < idx(l[j]) })
					if len(s.failedEvents) == 0 && !s.failedForGood {
						s.listingsUnreliable = false
					}
				}
			}
		}
		s.record("event:"+op.key, err, func() { m.events[op.key] = op.data }, m.events[op.key], op.data)
	case "block":
		b := new(hg.Block)
		if e := b.Unmarshal(op.data); e != nil {
			panic(harnessError{"block unmarshal"})
		}
		err = s.sut.SetBlock(b)
		s.record(fmt.Sprintf("block:%d", op.round), err, func() { m.blocks[op.round] = op.data }, m.blocks[op.round], op.data)
	case "round":
		ri := new(hg.RoundInfo)
		if e := ri.Unmarshal(op.data); e != nil {
			panic(harnessError{"round unmarshal"})
		}
		err = s.sut.SetRound(op.round, ri)
		s.record(fmt.Sprintf("round:%d", op.round), err, func() { m.rounds[op.round] = op.data }, m.rounds[op.round], op.data)
	case "frame":
		f := new(hg.Frame)
		if e := f.Unmarshal(op.data); e != nil {
			panic(harnessError{"frame unmarshal"})
		}
		err = s.sut.SetFrame(f)
		s.record(fmt.Sprintf("frame:%d", op.round), err, func() { m.frames[op.round] = op.data }, m.frames[op.round], op.data)
	case "peerset":
		err = s.sut.SetPeerSet(op.round, peers.NewPeerSet(clonePeers(op.peers)))
		if err == nil {
			m.peersets[op.round] = pubKeysOf(op.peers)
			for _, p := range op.peers {
				m.repert[p.PubKeyString()] = true
			}
		}
	case "consensus":
		if raw, ok := m.events[op.key]; ok {
			s.sut.AddConsensusEvent(eventFromDB(raw))
		}
	}
	s.applied++
}

// record updates the model after a write: on an injected commit error only the
// key of the failed write may hold the old or the new value.
func (s *storeRun) record(key string, err error, commit func(), old, new []byte) {
	if err == nil {
		commit()
		delete(s.model.doubt, key)
		return
	}
	if s.failNext || s.killed {
		s.model.doubt[key] = [][]byte{old, new}
		if s.failNext && strings.HasPrefix(key, "event:") {
			// a writer that saw this error would not go on using the event; the
			// captured sequence does, so the listings are not comparable until the
			// event has been written again successfully
			s.listingsUnreliable = true
			if old == nil {
				if s.failedEvents == nil {
					s.failedEvents = map[string]bool{}
				}
				s.failedEvents[strings.TrimPrefix(key, "event:")] = true
			} else {
				s.failedForGood = true
			}
		}
		return
	}
	if cm.IsStore(err, cm.TooLate) || cm.IsStore(err, cm.SkippedIndex) {
		// explicit refusal: the cache is too small to update an evicted entry
		// (configuration below the supported range); nothing was written
		s.c.stats.probe("c16-write-refused-cache-too-small")
		return
	}
	s.c.violate("C16", "write", "write-error", "write %s failed without any injected fault: %v", key, err)
}

func sameEventBytes(a, b []byte) bool {
	ea, eb := eventFromDB(a), eventFromDB(b)
	ra, _ := ea.MarshalDB()
	rb, _ := eb.MarshalDB()
	return bytes.Equal(ra, rb)
}

// checkEvent compares one event read through the store with the model.
func (s *storeRun) checkEvent(hash, how string) {
	want, ok := s.model.events[hash]
	if !ok {
		return
	}
	ev, err := s.sut.GetEvent(hash)
	if err != nil {
		if d, dk := s.model.doubt["event:"+hash]; dk && d[0] == nil {
			return
		}
		s.c.violate("C16", "read-event", "stored-event-unreadable", "%s: event %s was written (op <= %d) but GetEvent fails: %v (cache %d)", how, short(hash), s.applied, err, s.cache)
		return
	}
	got, _ := ev.MarshalDB()
	if ev.Hex() != hash {
		s.c.violate("C16", "read-event", "stored-event-differs", "%s: event %s read back with hash %s", how, short(hash), short(ev.Hex()))
		return
	}
	if !sameEventBytes(got, want) {
		if d, dk := s.model.doubt["event:"+hash]; dk {
			for _, alt := range d {
				if alt != nil && sameEventBytes(got, alt) {
					return
				}
			}
		}
		s.c.violate("C16", "read-event", "stored-event-differs", "%s: event %s read back differs from the last value written (body/signature/wire info/topological index/coordinates), cache %d", how, short(hash), s.cache)
	}
}

func (s *storeRun) checkBlock(i int, how string) {
	want, ok := s.model.blocks[i]
	if !ok {
		return
	}
	b, err := s.sut.GetBlock(i)
	if err != nil {
		if d, dk := s.model.doubt[fmt.Sprintf("block:%d", i)]; dk && d[0] == nil {
			return
		}
		s.c.violate("C16", "read-block", "stored-block-unreadable", "%s: block %d was written but GetBlock fails: %v (cache %d)", how, i, err, s.cache)
		return
	}
	wb := new(hg.Block)
	wb.Unmarshal(want)
	match := func(x *hg.Block) bool {
		if bodyDigest(&b.Body) != bodyDigest(&x.Body) || len(b.Signatures) != len(x.Signatures) {
			return false
		}
		for k, v := range x.Signatures {
			if b.Signatures[k] != v {
				return false
			}
		}
		return true
	}
	if !match(wb) {
		if d, dk := s.model.doubt[fmt.Sprintf("block:%d", i)]; dk {
			for _, alt := range d {
				if alt != nil {
					ab := new(hg.Block)
					ab.Unmarshal(alt)
					if match(ab) {
						return
					}
				}
			}
		}
		s.c.violate("C16", "read-block", "stored-block-differs", "%s: block %d read back differs from the last value written (body or signatures), cache %d", how, i, s.cache)
	}
}

// checkListings: participant listings through the store, and - at database
// level - the topological listing: every stored event exactly once, in order.
func (s *storeRun) checkListings(how string, dbLevel bool) {
	m := s.model
	if s.listingsUnreliable {
		return
	}
	creators := make([]string, 0, len(m.byCreator))
	for cr := range m.byCreator {
		creators = append(creators, cr)
	}
	sort.Strings(creators)
	for _, cr := range creators {
		want := m.byCreator[cr]
		skip := -1
		if len(want) > 3 && s.r.Bool(0.5) {
			skip = s.r.Intn(len(want) - 1)
		}
		got, err := s.sut.ParticipantEvents(cr, skip)
		if err != nil {
			s.c.violate("C16", "participant-listing", "participant-listing-error", "%s: ParticipantEvents(%s, %d) fails: %v (cache %d, %d events written)", how, short(cr), skip, err, s.cache, len(want))
			return
		}
		exp := want[skip+1:]
		if len(s.model.doubt) == 0 && !sameList(got, exp) {
			s.c.violate("C16", "participant-listing", "participant-listing-differs", "%s: ParticipantEvents(%s, %d) returns %d events, %d were written after that index (cache %d)", how, short(cr), skip, len(got), len(exp), s.cache)
			return
		}
		if len(want) > 0 {
			i := s.r.Intn(len(want))
			h, err := s.sut.ParticipantEvent(cr, i)
			if err != nil || h != want[i] {
				if len(s.model.doubt) == 0 {
					s.c.violate("C16", "participant-listing", "participant-event-differs", "%s: ParticipantEvent(%s, %d) = %s (%v), written %s (cache %d)", how, short(cr), i, short(h), err, short(want[i]), s.cache)
					return
				}
			}
		}
	}
	if !dbLevel || len(s.model.doubt) > 0 {
		return
	}
	evs, err := s.sut.SimDBTopologicalEvents(0, len(m.order)+10)
	if err != nil {
		s.c.violate("C16", "topological-listing", "topological-listing-error", "%s: reading the topological listing fails: %v", how, err)
		return
	}
	if len(evs) != len(m.order) {
		s.c.violate("C16", "topological-listing", "topological-listing-gap", "%s: the topological listing yields %d events, %d distinct events were written (a gap stops the listing)", how, len(evs), len(m.order))
		return
	}
	for i, ev := range evs {
		if ev.Hex() != m.order[i] {
			wi := -1
			if we, ok := m.events[m.order[i]]; ok {
				wi = eventFromDB(we).SimTopologicalIndex()
			}
			pos := -1
			for k, h := range m.order {
				if h == ev.Hex() {
					pos = k
				}
			}
			s.c.violate("C16", "topological-listing", "topological-listing-order", "%s: topological listing position %d holds %s (topological index %d, first written as number %d), the %d-th event written was %s (topological index %d)", how, i, short(ev.Hex()), ev.SimTopologicalIndex(), pos, i, short(m.order[i]), wi)
			return
		}
	}
}

// checkDBLevel: frames, rounds, peer sets and roots through the DB-level readers.
func (s *storeRun) checkDBLevel(how string) {
	m := s.model
	for r, want := range m.frames {
		if _, dk := m.doubt[fmt.Sprintf("frame:%d", r)]; dk {
			continue
		}
		f, err := s.sut.SimDBGetFrame(r)
		if err != nil {
			s.c.violate("C16", "db-frame", "stored-frame-unreadable", "%s: frame %d was written but cannot be read from the database: %v", how, r, err)
			return
		}
		wf := new(hg.Frame)
		wf.Unmarshal(want)
		h1, _ := f.Hash()
		h2, _ := wf.Hash()
		if !bytes.Equal(h1, h2) {
			s.c.violate("C16", "db-frame", "stored-frame-differs", "%s: frame %d read from the database differs from the value written: %s", how, r, frameDiff(f, wf))
			return
		}
	}
	for r, want := range m.rounds {
		if _, dk := m.doubt[fmt.Sprintf("round:%d", r)]; dk {
			continue
		}
		ri, err := s.sut.SimDBGetRound(r)
		if err != nil {
			s.c.violate("C16", "db-round", "stored-round-unreadable", "%s: round %d was written but cannot be read from the database: %v", how, r, err)
			return
		}
		got, _ := ri.Marshal()
		wr := new(hg.RoundInfo)
		wr.Unmarshal(want)
		exp, _ := wr.Marshal()
		if !bytes.Equal(got, exp) {
			s.c.violate("C16", "db-round", "stored-round-differs", "%s: round %d read from the database differs from the value written", how, r)
			return
		}
	}
	for r, want := range m.peersets {
		got, err := s.sut.SimDBGetPeerSetRaw(r)
		if err != nil || !sameList(got, want) {
			s.c.violate("C16", "db-peerset", "stored-peerset-differs", "%s: validator set of round %d read from the database is %v (%v), written %v", how, r, shortList(got), err, shortList(want))
			return
		}
	}
	for p := range m.repert {
		if _, err := s.sut.GetRoot(p); err != nil {
			s.c.violate("C16", "root", "root-unreadable", "%s: root of participant %s cannot be read: %v", how, short(p), err)
			return
		}
	}
}

func (s *storeRun) spotChecks(how string) {
	m := s.model
	if len(m.order) > 0 {
		for k := 0; k < 6; k++ {
			// bias towards old (evicted) entries
			i := s.r.Intn(len(m.order))
			if s.r.Bool(0.5) {
				i = s.r.Intn(len(m.order)/4 + 1)
			}
			s.checkEvent(m.order[i], how)
		}
	}
	if len(m.blocks) > 0 {
		max := 0
		for i := range m.blocks {
			if i > max {
				max = i
			}
		}
		for k := 0; k < 3; k++ {
			s.checkBlock(s.r.Intn(max+1), how)
		}
	}
}

// runStoreEngine replays the captured writes with faults.
func (c *Cluster) runStoreEngine(ops []*storeOp) {
	r := NewRNG(Mix(c.seed, 0x73746f72))
	conf := config.NewDefaultConfig()
	conf.LogLevel = "panic"
	conf.Logger().Logger.Out = io.Discard
	if debugTrace {
		conf = config.NewDefaultConfig()
		conf.LogLevel = "debug"
		conf.Logger().Logger.Out = os.Stderr
	}
	s := &storeRun{c: c, r: r, conf: conf, model: newStoreModel()}
	s.cache = []int{2, 3, 5, 10, 50, 500, 10000}[r.Intn(7)]
	s.path = filepath.Join(c.workdir, "c16-store")
	s.open()
	if s.sut == nil {
		return
	}
	c.stats.probe(fmt.Sprintf("c16-cache-%d", s.cache))
	pReopen := 0.004 + 0.01*r.Float()
	pCrash := 0.004 * r.Float() * 2
	pErr := 0.0
	if r.Bool(0.3) {
		pErr = 0.004
	}
	// store hook: commit errors and kills
	hg.SimStoreHook = func(path, kind, phase string) error {
		if path != s.path {
			return nil
		}
		s.points++
		if phase == "pre" {
			_, s.preSize = vlogSize(path)
			if s.failNext {
				c.stats.fault("commit-error")
				return fmt.Errorf("injected commit error")
			}
		}
		if s.crashAt > 0 && s.points >= s.crashAt {
			s.crashAt = 0
			s.killed = true
			s.killPhase = phase
			img := s.path + "-img"
			os.RemoveAll(img)
			if err := copyDir(s.path, img); err != nil {
				panic(harnessError{"copy: " + err.Error()})
			}
			if s.killTorn && phase == "post" {
				name, now := vlogSize(img)
				if name != "" && now > s.preSize+1 {
					cut := s.preSize + 1 + int64(r.Float()*float64(now-s.preSize-1))
					if cut >= now {
						cut = now - 1
					}
					os.Truncate(filepath.Join(img, name), cut)
					c.stats.fault("torn-tail")
					if s.preSize == s.sizeAtOpen {
						// the torn transaction is the first one after a clean reopen
						s.wipeExpected = true
						c.stats.probe("torn-first-write-after-clean-reopen")
					}
				}
			}
			c.stats.fault("crash-" + phase)
			if debugTrace {
				ents, _ := os.ReadDir(img)
				for _, e := range ents {
					fi, _ := e.Info()
					fmt.Fprintf(os.Stderr, "kill image (%s, torn=%v, preSize=%d): %s %d\n", phase, s.killTorn, s.preSize, e.Name(), fi.Size())
				}
			}
			panic(crashSentinel{})
		}
		return nil
	}
	defer func() { hg.SimStoreHook = c.storeHook }()

	for i := 0; i < len(ops) && c.failed("C16") == nil && s.sut != nil; i++ {
		op := ops[i]
		s.failNext = pErr > 0 && r.Bool(pErr) && op.kind != "peerset" && op.kind != "consensus"
		if pCrash > 0 && r.Bool(pCrash) && op.kind != "peerset" {
			s.crashAt = s.points + 1 + r.Intn(3)
			s.killTorn = r.Bool(0.5)
		}
		s.killed = false
		func() {
			defer func() {
				if rec := recover(); rec != nil {
					if _, ok := rec.(crashSentinel); ok {
						return
					}
					panic(rec)
				}
			}()
			s.apply(op)
		}()
		s.failNext = false
		if s.killed {
			// the process is dead: continue from the image
			func() {
				defer func() { recover() }()
				s.sut.Close()
			}()
			os.RemoveAll(s.path)
			os.Rename(s.path+"-img", s.path)
			s.open()
			if s.sut == nil {
				return
			}
			s.reopens++
			c.stats.probe("c16-restart-after-kill")
			// the write in flight may or may not have become durable
			s.markDoubt(op)
			s.checkAfterReopen("after kill")
			s.rebuildInmem(ops[:i])
			// the writer retries after the restart
			s.killed = false
			s.apply(op)
			continue
		}
		if i%7 == 0 {
			s.spotChecks("live")
		}
		if i%97 == 0 {
			s.checkListings("live", false)
		}
		if r.Bool(pReopen) {
			if err := s.sut.Close(); err != nil {
				c.violate("C16", "close", "close-error", "closing the store fails: %v", err)
				return
			}
			s.open()
			if s.sut == nil {
				return
			}
			s.reopens++
			c.stats.fault("close-reopen")
			s.checkAfterReopen("after reopen")
			s.rebuildInmem(ops[:i+1])
		}
	}
	if c.failed("C16") == nil && s.sut != nil {
		s.spotChecks("end")
		s.checkListings("end", true)
		s.checkDBLevel("end")
		s.sut.Close()
		s.open()
		if s.sut != nil {
			s.checkAfterReopen("final reopen")
			for _, h := range s.model.order {
				s.checkEvent(h, "final reopen (all events)")
				if c.failed("C16") != nil {
					break
				}
			}
			s.sut.Close()
		}
	}
	if c.failed("C16") == nil && len(s.model.frames) > 0 && !s.wipeExpected && !abortRun.Load() && r.Bool(0.5) {
		s.resetPhase()
	}
	if s.wipeExpected {
		for _, v := range c.violations {
			if v.Property == "C16" && strings.Contains(v.Message, "Invalid value pointer offset") {
				v.Key = "torn-first-write-after-clean-reopen-wipes-value-log"
			}
		}
	}
	c.trace.add(fmt.Sprintf("store:%d:%d:%d:%d", s.cache, s.applied, s.reopens, s.points))
	c.stats.Probes["c16-ops-applied"] += s.applied
	c.stats.Probes["c16-reopens"] += s.reopens
}

// resetPhase: what a fast-sync writes. The store is reset from one of the frames
// of the captured history (hg.Store.Reset, as Hashgraph.Reset calls it), the
// frame's events and a block are written on top; the roots, the frame, the
// validator set of the frame's round, the frame events and the block must read
// back identical - live, and from the database after close and reopen.
func (s *storeRun) resetPhase() {
	c := s.c
	m := s.model
	// a kill or commit error armed by the last captured write and not reached
	// yet must not fire inside the reset phase (nothing recovers it there)
	s.crashAt = 0
	s.failNext = false
	rounds := make([]int, 0, len(m.frames))
	for r := range m.frames {
		if _, dk := m.doubt[fmt.Sprintf("frame:%d", r)]; !dk {
			rounds = append(rounds, r)
		}
	}
	if len(rounds) == 0 {
		return
	}
	sort.Ints(rounds)
	fr := rounds[len(rounds)-1]
	if s.r.Bool(0.4) {
		fr = rounds[s.r.Intn(len(rounds))]
	}
	f := new(hg.Frame)
	if err := f.Unmarshal(m.frames[fr]); err != nil {
		panic(harnessError{"frame unmarshal"})
	}
	// expected values are taken from an independent decoding of the same bytes
	ref := new(hg.Frame)
	ref.Unmarshal(m.frames[fr])
	wantFrameHash, _ := ref.Hash()
	wantRoots := map[string][]byte{}
	for p, root := range ref.Roots {
		raw, _ := root.Marshal()
		wantRoots[p] = raw
	}
	wantPeers := pubKeysOf(ref.Peers)
	s.open()
	if s.sut == nil {
		return
	}
	c.stats.probe("c16-reset-from-frame")
	if err := s.sut.Reset(f); err != nil {
		c.violate("C16", "reset", "write-error", "Reset from the frame of round %d failed without any injected fault: %v", fr, err)
		s.sut.Close()
		return
	}
	// the frame's events, as Hashgraph.Reset inserts them
	wantEvents := map[string][]byte{}
	order := []string{}
	for _, fe := range f.SortedFrameEvents() {
		raw, _ := fe.Core.MarshalDB()
		ev := eventFromDB(raw)
		if err := s.sut.SetEvent(ev); err != nil {
			if cm.IsStore(err, cm.TooLate) || cm.IsStore(err, cm.SkippedIndex) || cm.IsStore(err, cm.KeyAlreadyExists) {
				// (cache sizes below the supported range; creators whose root is longer than the cache)
				c.stats.probe("c16-reset-frame-event-refused")
				continue
			}
			c.violate("C16", "reset", "write-error", "writing frame event %s after a Reset failed without any injected fault: %v", short(ev.Hex()), err)
			s.sut.Close()
			return
		}
		got, _ := ev.MarshalDB()
		wantEvents[ev.Hex()] = got
		order = append(order, ev.Hex())
	}
	check := func(how string, db bool) bool {
		for p, want := range wantRoots {
			var root *hg.Root
			var err error
			if db {
				root, err = s.sut.SimDBGetRoot(p)
			} else {
				root, err = s.sut.GetRoot(p)
			}
			if err != nil {
				c.violate("C16", "root", "root-unreadable", "%s: root of participant %s (frame of round %d) cannot be read: %v", how, short(p), fr, err)
				return false
			}
			got, _ := root.Marshal()
			if !bytes.Equal(got, want) {
				c.violate("C16", "root", "stored-root-differs", "%s: root of participant %s read back differs from the root of the frame the store was reset from (round %d)", how, short(p), fr)
				return false
			}
		}
		var gf *hg.Frame
		var err error
		if db {
			gf, err = s.sut.SimDBGetFrame(fr)
		} else {
			gf, err = s.sut.GetFrame(fr)
		}
		if err != nil {
			c.violate("C16", "db-frame", "stored-frame-unreadable", "%s: the frame the store was reset from (round %d) cannot be read: %v", how, fr, err)
			return false
		}
		if gh, _ := gf.Hash(); !bytes.Equal(gh, wantFrameHash) {
			c.violate("C16", "db-frame", "stored-frame-differs", "%s: the frame the store was reset from (round %d) reads back different: %s", how, fr, frameDiff(gf, ref))
			return false
		}
		if db {
			got, err := s.sut.SimDBGetPeerSetRaw(fr)
			if err != nil || !sameList(got, wantPeers) {
				c.violate("C16", "db-peerset", "stored-peerset-differs", "%s: validator set of the reset frame's round %d read from the database is %v (%v), the frame says %v", how, fr, shortList(got), err, shortList(wantPeers))
				return false
			}
		} else {
			ps, err := s.sut.GetPeerSet(fr)
			if err != nil || !sameList(pubKeysOf(ps.Peers), wantPeers) {
				c.violate("C16", "db-peerset", "stored-peerset-differs", "%s: validator set of the reset frame's round %d reads back different (%v)", how, fr, err)
				return false
			}
		}
		for _, h := range order {
			var ev *hg.Event
			var err error
			if db {
				ev, err = s.sut.SimDBGetEvent(h)
			} else {
				ev, err = s.sut.GetEvent(h)
			}
			if err != nil {
				c.violate("C16", "read-event", "stored-event-unreadable", "%s: frame event %s written after a Reset cannot be read: %v (cache %d)", how, short(h), err, s.cache)
				return false
			}
			got, _ := ev.MarshalDB()
			if ev.Hex() != h || !sameEventBytes(got, wantEvents[h]) {
				c.violate("C16", "read-event", "stored-event-differs", "%s: frame event %s written after a Reset reads back different (cache %d)", how, short(h), s.cache)
				return false
			}
		}
		return true
	}
	if check("after reset", false) && check("after reset (database)", true) {
		if err := s.sut.Close(); err != nil {
			c.violate("C16", "close", "close-error", "closing the store fails: %v", err)
			return
		}
		s.open()
		if s.sut == nil {
			return
		}
		s.reopens++
		check("after reset and reopen", true)
		// through the store interface the roots must still be readable (cache empty)
		for p, want := range wantRoots {
			root, err := s.sut.GetRoot(p)
			if err != nil {
				c.violate("C16", "root", "root-unreadable", "after reset and reopen: root of participant %s cannot be read through the store: %v", short(p), err)
				break
			}
			if got, _ := root.Marshal(); !bytes.Equal(got, want) {
				c.violate("C16", "root", "stored-root-differs", "after reset and reopen: root of participant %s read through the store differs from the frame's", short(p))
				break
			}
		}
		c.stats.probe("c16-reset-checked")
	}
	if s.sut != nil {
		s.sut.Close()
	}
}

// markDoubt: after a kill the key of the write that was in flight may hold the
// old or the new value.
func (s *storeRun) markDoubt(op *storeOp) {
	switch op.kind {
	case "event":
		s.model.doubt["event:"+op.key] = [][]byte{s.model.events[op.key], op.data}
		if _, seen := s.model.events[op.key]; !seen {
			// a new event: it is part of the listings iff it became durable
			if _, err := s.sut.SimDBGetEvent(op.key); err == nil {
				ev := eventFromDB(op.data)
				s.model.order = append(s.model.order, op.key)
				s.model.byCreator[ev.Creator()] = append(s.model.byCreator[ev.Creator()], op.key)
				s.model.events[op.key] = op.data
			}
		}
	case "block":
		s.model.doubt[fmt.Sprintf("block:%d", op.round)] = [][]byte{s.model.blocks[op.round], op.data}
	case "round":
		s.model.doubt[fmt.Sprintf("round:%d", op.round)] = [][]byte{s.model.rounds[op.round], op.data}
	case "frame":
		s.model.doubt[fmt.Sprintf("frame:%d", op.round)] = [][]byte{s.model.frames[op.round], op.data}
	}
}

// rebuildInmem brings the in-memory layer of a reopened store to the state a
// bootstrap would give it: the captured writes are replayed with database
// writes disabled (maintenance mode).
func (s *storeRun) rebuildInmem(ops []*storeOp) {
	s.sut.SetMaintenanceMode(true)
	defer s.sut.SetMaintenanceMode(false)
	for _, op := range ops {
		switch op.kind {
		case "event":
			s.sut.SetEvent(eventFromDB(op.data))
		case "block":
			b := new(hg.Block)
			b.Unmarshal(op.data)
			s.sut.SetBlock(b)
		case "round":
			ri := new(hg.RoundInfo)
			ri.Unmarshal(op.data)
			s.sut.SetRound(op.round, ri)
		case "frame":
			f := new(hg.Frame)
			f.Unmarshal(op.data)
			s.sut.SetFrame(f)
		case "peerset":
			s.sut.SetPeerSet(op.round, peers.NewPeerSet(clonePeers(op.peers)))
		case "consensus":
			if raw, ok := s.model.events[op.key]; ok {
				s.sut.AddConsensusEvent(eventFromDB(raw))
			}
		}
	}
}

func (s *storeRun) checkAfterReopen(how string) {
	s.spotChecks(how)
	s.checkListings(how, true)
	s.checkDBLevel(how)
}

// checkDBMirrorAll / checkDBMirror: write-through check on the persistent
// nodes of a cluster run. Whatever a running node's store hands out - every
// event of every creator up to the index it knows, every block - must be in
// the database itself (DB-level readers, no cache), with the same hash / body
// / signatures, and the database's topological listing must hold exactly the
// events the node knows. A store whose writes stop reaching the database (in
// any of the node's lives: after a bootstrap, after a re-join...) fails here
// long before the cache evicts anything.
func (c *Cluster) checkDBMirrorAll() {
	for _, n := range c.nodes {
		if c.failed("C16") != nil {
			return
		}
		c.checkDBMirror(n)
	}
}

func (c *Cluster) checkDBMirror(n *SimNode) {
	if n == nil || !n.running() || n.ffDone || n.maintenance || n.isObserver || n.wiped {
		return
	}
	bs, ok := n.store.(*hg.BadgerStore)
	if !ok {
		return
	}
	store := n.core().Hashgraph().Store
	known := store.KnownEvents()
	rep := store.RepertoireByID()
	ids := make([]uint32, 0, len(known))
	for id := range known {
		ids = append(ids, id)
	}
	sort.Slice(ids, func(i, j int) bool { return ids[i] < ids[j] })
	total := 0
	for _, id := range ids {
		p := rep[id]
		if p == nil {
			continue
		}
		last := known[id]
		total += last + 1
		// the most recent events are the ones a broken write path loses first
		from := 0
		if last > 12 {
			from = last - 12
		}
		for i := from; i <= last; i++ {
			h, err := store.ParticipantEvent(p.PubKeyString(), i)
			if err != nil {
				continue
			}
			dh, err := bs.SimDBParticipantEvent(p.PubKeyString(), i)
			if err != nil || dh != h {
				c.violate("C16", "write-through", "event-index-not-in-database", "node %d (epoch %d): the store lists event %s as number %d of creator %s, the database has %s (%v)", n.idx, n.epoch, short(h), i, short(p.PubKeyString()), short(dh), err)
				return
			}
			ev, err := bs.SimDBGetEvent(h)
			if err != nil || ev.Hex() != h {
				c.violate("C16", "write-through", "event-not-in-database", "node %d (epoch %d): event %s (number %d of creator %s) is known to the node but cannot be read from its database: %v", n.idx, n.epoch, short(h), i, short(p.PubKeyString()), err)
				return
			}
		}
	}
	topo, err := bs.SimDBTopologicalEvents(0, total+10)
	if err == nil && len(topo) != total {
		c.violate("C16", "write-through", "topological-listing-gap", "node %d (epoch %d): the database's topological listing yields %d events, the node knows %d", n.idx, n.epoch, len(topo), total)
		return
	}
	for i := 0; i <= store.LastBlockIndex(); i++ {
		b, err := store.GetBlock(i)
		if err != nil {
			continue
		}
		db, err := bs.SimDBGetBlock(i)
		if err != nil {
			c.violate("C16", "write-through", "block-not-in-database", "node %d (epoch %d): block %d is in the store but cannot be read from its database: %v", n.idx, n.epoch, i, err)
			return
		}
		same := bodyDigest(&b.Body) == bodyDigest(&db.Body) && len(b.Signatures) == len(db.Signatures)
		if same {
			for k, v := range b.Signatures {
				if db.Signatures[k] != v {
					same = false
				}
			}
		}
		if !same {
			c.violate("C16", "write-through", "block-in-database-differs", "node %d (epoch %d): block %d in the database differs from the block the store hands out (body or %d / %d signatures)", n.idx, n.epoch, i, len(db.Signatures), len(b.Signatures))
			return
		}
	}
	// rounds and frames (the node re-reads them after eviction just the same)
	for r := 0; r <= store.LastRound(); r++ {
		ri, err := store.GetRound(r)
		if err != nil {
			continue
		}
		dr, err := bs.SimDBGetRound(r)
		if err != nil {
			c.violate("C16", "write-through", "round-not-in-database", "node %d (epoch %d): round %d is in the store but cannot be read from its database: %v", n.idx, n.epoch, r, err)
			return
		}
		a, _ := ri.Marshal()
		b, _ := dr.Marshal()
		if !bytes.Equal(a, b) {
			c.violate("C16", "write-through", "round-in-database-differs", "node %d (epoch %d): round %d in the database differs from the round the store hands out", n.idx, n.epoch, r)
			return
		}
	}
	for i := 0; i <= store.LastBlockIndex(); i++ {
		b, err := store.GetBlock(i)
		if err != nil {
			continue
		}
		f, err := store.GetFrame(b.RoundReceived())
		if err != nil {
			continue
		}
		df, err := bs.SimDBGetFrame(b.RoundReceived())
		if err != nil {
			c.violate("C16", "write-through", "frame-not-in-database", "node %d (epoch %d): the frame of round %d (block %d) is in the store but cannot be read from its database: %v", n.idx, n.epoch, b.RoundReceived(), i, err)
			return
		}
		h1, _ := f.Hash()
		h2, _ := df.Hash()
		if !bytes.Equal(h1, h2) {
			c.violate("C16", "write-through", "frame-in-database-differs", "node %d (epoch %d): the frame of round %d in the database differs from the frame the store hands out", n.idx, n.epoch, b.RoundReceived())
			return
		}
	}
	c.stats.probe("c16-write-through-checked")
}

package sim

import (
	"fmt"

	_state "github.com/mosaicnetworks/babble/src/node/state"
)

// RunConfig is the swarm configuration of one run, drawn from the seed by the
// profile of the property being checked. It is part of the replay file.
type RunConfig struct {
	Profile       string   `json:"profile"`
	N0            int      `json:"n0"`
	Stores        []string `json:"stores"`
	CacheSize     int      `json:"cache"`
	SyncLimit     int      `json:"sync_limit"`
	SuspendLimit  int      `json:"suspend_limit"`
	JoinTimeoutMs int      `json:"join_timeout_ms"`
	Steps         int      `json:"steps"`
	Policy        string   `json:"policy"`
	FastSyncLate  bool     `json:"fast_sync_late"`

	// fault rates (per tick leg / per step)
	PDropReq      float64 `json:"p_dropreq"`
	PDropResp     float64 `json:"p_dropresp"`
	PLate         float64 `json:"p_late"`
	PPartition    float64 `json:"p_partition"`
	PSilence      float64 `json:"p_silence"`
	PSyncLimit    float64 `json:"p_synclimit"`
	PClock        float64 `json:"p_clock"`
	PSubmit       float64 `json:"p_submit"`
	PAdvance      float64 `json:"p_advance"`
	PCrash        float64 `json:"p_crash"`
	PJoin         float64 `json:"p_join"`
	PLeave        float64 `json:"p_leave"`
	PByz          float64 `json:"p_byz"`
	MaxJoins      int     `json:"max_joins"`
	MaxLeaves     int     `json:"max_leaves"`
	Liars         int     `json:"liars"`
	Byz           int     `json:"byz"`
	PCommitSubmit float64 `json:"p_commit_submit"`
	Quorumless    bool    `json:"quorumless"`
	Maintenance   bool    `json:"maintenance,omitempty"`
	ChattyPair    bool    `json:"chatty_pair,omitempty"`
	PStoreErr     float64 `json:"p_store_err,omitempty"`
	PFrameErr     float64 `json:"p_frame_err,omitempty"` // transient error of the database write of a frame (the cache keeps the frame; the round is retried by the next pass)
	Wire          bool    `json:"wire,omitempty"`
	StarveOnly    bool    `json:"starve_only,omitempty"`
	StaleForger   bool    `json:"stale_forger,omitempty"`
	EventClock    bool    `json:"event_clock,omitempty"`
	// the straggler pulls as often as anybody (it has a witness in every round) but
	// never pushes and is rarely pulled from: its witnesses reach the others late
	StragglerListens bool `json:"straggler_listens,omitempty"`
	// persistent nodes may run with a backlog of undetermined events larger than their cache
	BacklogOverCache bool    `json:"backlog_over_cache,omitempty"`
	NilTx            bool    `json:"nil_tx"`
	PAsync           float64 `json:"p_async"`
	PReFF            float64 `json:"p_reff"`
	BadgerCache      int     `json:"badger_cache"`
	Straggler        int     `json:"straggler"`
	Synthetic        bool    `json:"synthetic"`
	PJoinerBadger    float64 `json:"p_joiner_badger,omitempty"`
	Prepared         bool    `json:"prepared,omitempty"`      // the nodes bootstrap from a database holding a synthetic (deep-election) history, then the fair suffix runs
	BackwardReFF     bool    `json:"backward_reff,omitempty"` // an up-to-date node may re-fast-forward to an anchor below its own last block
	LowerKeys        bool    `json:"lower_keys,omitempty"`    // the peers files spell some validators' keys in lower case with a 0x prefix
	LeaveFirst       bool    `json:"leave_first,omitempty"`   // a validator leaves early; joins and re-fast-forwards come after its removal
	PAppError        float64 `json:"p_app_error,omitempty"`
	StragglerP       float64 `json:"straggler_p"`
	Variants         int     `json:"variants"`
	TxStyle          string  `json:"tx_style"` // "unique" | "mixed"
	FairSuffix       bool    `json:"fair_suffix"`
	Shadow           int     `json:"shadow"` // shadow-bootstrap checks per run (C11)
	TornP            float64 `json:"torn_p"`

	FullReread   bool `json:"full_reread"`
	TracePerStep bool `json:"-"`
	CheckEvery   int  `json:"check_every"`
}

func baseConfig(profile string, r *RNG, thorough bool) *RunConfig {
	cfg := &RunConfig{
		Profile:       profile,
		CacheSize:     []int{1000, 10000, 10000}[r.Intn(3)],
		SyncLimit:     []int{1000, 1000, 50, 10}[r.Intn(4)],
		SuspendLimit:  1000,
		JoinTimeoutMs: 10000,
		Policy:        "accept",
		TxStyle:       "mixed",
		CheckEvery:    10,
	}
	// validators at genesis: weighted to 3-5
	cfg.N0 = []int{1, 2, 3, 3, 3, 4, 4, 4, 4, 5, 5, 6, 7}[r.Intn(13)]
	if thorough {
		cfg.Steps = r.Range(80, 400)
	} else {
		cfg.Steps = r.Range(40, 220)
	}
	cfg.Stores = make([]string, cfg.N0)
	for i := range cfg.Stores {
		cfg.Stores[i] = "inmem"
	}
	cfg.PSubmit = 0.15 + 0.2*r.Float()
	cfg.PAdvance = 0.02
	cfg.EventClock = r.Bool(0.5)
	// about a quarter of the runs are fault-free
	if !r.Bool(0.25) {
		cfg.PDropReq = 0.08 * r.Float()
		cfg.PDropResp = 0.08 * r.Float()
		cfg.PLate = 0.05 * r.Float()
		cfg.PPartition = 0.02 * r.Float()
		cfg.PSilence = 0.03 * r.Float()
		cfg.PSyncLimit = 0.05 * r.Float()
		cfg.PClock = 0.02 * r.Float()
	}
	return cfg
}

// genState is the generator's own bookkeeping (what it has scheduled).
type genState struct {
	joins      int
	leaves     int
	txCounter  int
	silentNow  int
	partActive bool
	// chatty pair: a burst of exchanges between two validators only
	burstLeft      int
	burstA, burstB int
	leaveStep      int // LeaveFirst: step at which the early leave was requested
}

func (c *Cluster) validatorsAlive() []*SimNode {
	res := []*SimNode{}
	for _, n := range c.nodes {
		if n.running() {
			res = append(res, n)
		}
	}
	return res
}

func (c *Cluster) genTx(g *genState) []byte {
	g.txCounter++
	r := c.gen
	if c.cfg.TxStyle == "unique" {
		return []byte(fmt.Sprintf("tx-%d-%d", c.seed%100000, g.txCounter))
	}
	switch r.Intn(10) {
	case 0:
		return []byte{}
	case 1:
		return []byte("dup")
	case 2:
		return r.Bytes(r.Range(1, 40))
	case 3:
		return r.Bytes(r.Range(200, 3000))
	default:
		return []byte(fmt.Sprintf("tx-%d-%d", c.seed%100000, g.txCounter))
	}
}

func legFault(c *Cluster) (string, int) {
	cfg := c.cfg
	r := c.gen
	x := r.Float()
	switch {
	case x < cfg.PDropReq:
		return "dropreq", 0
	case x < cfg.PDropReq+cfg.PDropResp:
		return "dropresp", 0
	case x < cfg.PDropReq+cfg.PDropResp+cfg.PLate:
		return "late", r.Range(1, 12)
	}
	return "", 0
}

// maxSilent is the largest minority that may be silent/crashed while liveness
// is still expected: strictly fewer than a third of the current validators.
func maxSilent(n int) int {
	m := (n - 1) / 3
	if m < 0 {
		m = 0
	}
	return m
}

func (c *Cluster) countUnavailable() int {
	k := 0
	for _, n := range c.nodes {
		if !n.started || n.byz {
			continue
		}
		if n.left {
			continue
		}
		if n.silent || n.crashed || n.dead {
			k++
		}
	}
	return k
}

func (c *Cluster) currentValidatorCount() int {
	k := 0
	for _, n := range c.nodes {
		if n.started && !n.left && !n.byz && n.inLatestModelSet() {
			k++
		}
	}
	if k == 0 {
		k = len(c.genesisSet)
	}
	return k
}

// genStep draws the next step from the generation stream, looking at the
// current state of the cluster.
func (c *Cluster) genStep(g *genState) *Step {
	cfg := c.cfg
	r := c.gen
	alive := []*SimNode{}
	for _, n := range c.nodes {
		if n.running() && !n.silent && !n.isObserver && n.state() != _state.Shutdown {
			alive = append(alive, n)
		}
	}
	if cfg.ChattyPair && cfg.Profile == "C13" && len(alive) >= 3 && g.burstLeft == 0 && r.Bool(0.04) {
		// directed: pile + a persistent victim that re-fast-forwards (see opPileReFF)
		vict := []*SimNode{}
		for _, n := range alive {
			if n.storeKind == "badger" && n.state() == _state.Babbling {
				vict = append(vict, n)
			}
		}
		if len(vict) > 0 {
			v := vict[r.Intn(len(vict))]
			a, b := alive[r.Intn(len(alive))], alive[r.Intn(len(alive))]
			if a != v && b != v && a != b {
				return &Step{Op: "pilereff", A: v.idx, B: a.idx, N: b.idx, D: int64(r.Range(2, 12) + 100*r.Range(2, 14) + 10000*r.Range(8, 40))}
			}
		}
	}
	if cfg.ChattyPair && len(alive) >= 2 {
		// two validators exchange syncs for a while and nobody else takes part:
		// without a quorum the round does not advance, each of them piles up a
		// dozen events inside one round (later frames then hold roots without any
		// witness for these creators)
		if g.burstLeft == 0 && r.Bool(0.025) {
			g.burstLeft = r.Range(12, 36)
			g.burstA = alive[r.Intn(len(alive))].idx
			g.burstB = alive[r.Intn(len(alive))].idx
		}
		if g.burstLeft > 0 {
			g.burstLeft--
			a, b := c.nodeAt(g.burstA), c.nodeAt(g.burstB)
			if g.burstLeft%2 == 1 {
				a, b = b, a
			}
			if a != nil && b != nil && a != b && a.running() && b.running() && !a.silent && !b.silent && a.state() == _state.Babbling && findPeer(a, b) != nil {
				if r.Bool(0.2) {
					return &Step{Op: "submit", A: a.idx, Tx: c.genTx(g)}
				}
				return &Step{Op: "tick", A: a.idx, B: b.idx}
			}
			g.burstLeft = 0
		}
	}
	if cfg.Straggler > 0 && len(alive) >= 3 && r.Bool(0.5) {
		// directed: a node holds a round that is decided but waits behind an
		// earlier open round, and somebody else knows a witness of that round it
		// has not seen yet (a straggler's): let it pull that witness now
		for _, a := range alive {
			if a.state() != _state.Babbling {
				continue
			}
			ha := a.core().Hashgraph()
			open := false
			for _, p := range ha.PendingRounds.GetOrderedPendingRounds() {
				if !p.Decided {
					open = true
					continue
				}
				if !open {
					continue
				}
				mine := map[string]bool{}
				for _, w := range ha.Store.RoundWitnesses(p.Index) {
					mine[w] = true
				}
				for _, b := range alive {
					if b == a || b.state() != _state.Babbling || findPeer(a, b) == nil {
						continue
					}
					for _, w := range b.core().Hashgraph().Store.RoundWitnesses(p.Index) {
						if !mine[w] {
							c.stats.probe("directed-late-witness-pull")
							return &Step{Op: "tick", A: a.idx, B: b.idx, Kind: "pullonly"}
						}
					}
				}
			}
		}
	}
	if cfg.LeaveFirst && g.leaves == 0 && c.stepNo > 12 && r.Bool(0.15) {
		// directed: a validator leaves early, so that later anchors (joiners and
		// lagging nodes reset from them) come after the removal took effect and
		// their frames hold a Root for a participant that is no longer a peer
		if s := c.genLeave(g); s != nil {
			g.leaveStep = c.stepNo
			c.stats.probe("directed-early-leave")
			return s
		}
	}
	x := r.Float()
	acc := 0.0
	pick := func(p float64) bool {
		acc += p
		return x < acc
	}
	switch {
	case pick(cfg.PSubmit):
		if len(alive) > 0 {
			a := alive[r.Intn(len(alive))]
			return &Step{Op: "submit", A: a.idx, Tx: c.genTx(g)}
		}
	case pick(cfg.PAdvance):
		return &Step{Op: "advance", D: int64([]int{5, 50, 500, 3000, 11000}[r.Intn(5)])}
	case pick(cfg.PPartition):
		if g.partActive {
			g.partActive = false
			return &Step{Op: "heal"}
		}
		g.partActive = true
		groups := make([]int, len(c.nodes))
		for i := range groups {
			groups[i] = r.Intn(2)
		}
		return &Step{Op: "partition", Groups: groups}
	case pick(cfg.PSilence):
		// toggle silence, keeping the unavailable minority below a third
		sil := []*SimNode{}
		for _, n := range c.nodes {
			if n.silent {
				sil = append(sil, n)
			}
		}
		if len(sil) > 0 && r.Bool(0.5) {
			return &Step{Op: "unsilence", A: sil[r.Intn(len(sil))].idx}
		}
		if len(alive) > 0 && (c.cfg.Quorumless || c.countUnavailable() < maxSilent(c.currentValidatorCount())) {
			return &Step{Op: "silence", A: alive[r.Intn(len(alive))].idx}
		}
	case pick(cfg.PSyncLimit):
		if len(alive) > 0 {
			return &Step{Op: "synclimit", A: alive[r.Intn(len(alive))].idx, N: []int{1, 2, 3, 5, 10, 1000}[r.Intn(6)]}
		}
	case pick(cfg.PClock):
		if len(alive) > 0 {
			a := alive[r.Intn(len(alive))]
			if !a.liar {
				return &Step{Op: "clock", A: a.idx, D: int64(r.Range(-30, 30)), N: 0}
			}
		}
	case pick(cfg.PJoin):
		if cfg.LeaveFirst && (g.leaves == 0 || c.stepNo < g.leaveStep+60) {
			break
		}
		if s := c.genJoin(g); s != nil {
			return s
		}
	case pick(cfg.PLeave):
		if s := c.genLeave(g); s != nil {
			return s
		}
	case pick(cfg.PCrash):
		if s := c.genCrash(g); s != nil {
			return s
		}
	case pick(cfg.PByz):
		if s := c.genByz(g); s != nil {
			return s
		}
	case pick(cfg.PReFF):
		if len(alive) > 0 {
			return &Step{Op: "reff", A: alive[r.Intn(len(alive))].idx}
		}
	}
	// default: a tick
	if len(alive) == 0 {
		return &Step{Op: "nop"}
	}
	// restart crashed persistent nodes eventually
	for _, n := range c.nodes {
		if n.crashed && !n.dead && r.Bool(0.15) {
			return &Step{Op: "restart", A: n.idx}
		}
	}
	a := alive[r.Intn(len(alive))]
	// straggler bias: one validator takes part only now and then, so that its
	// witnesses reach the others late and unevenly (votes on them are split and
	// fame decisions are pushed to later rounds, up to the coin round)
	strag := -1
	if cfg.Straggler > 0 && cfg.Straggler <= len(c.nodes) {
		strag = cfg.Straggler - 1
		if a.idx == strag && !cfg.StragglerListens && !r.Bool(cfg.StragglerP) && len(alive) > 1 {
			for a.idx == strag {
				a = alive[r.Intn(len(alive))]
			}
		}
	}
	st := &Step{Op: "tick", A: a.idx, B: -1}
	switch a.state() {
	case _state.Babbling:
		others := selectablePeers(a)
		if len(others) > 0 {
			p := others[r.Intn(len(others))]
			if b := c.byPub[p.PubKeyString()]; b != nil {
				st.B = b.idx
			}
			if strag >= 0 && st.B == strag && a.idx != strag && len(others) > 1 && !r.Bool(cfg.StragglerP) {
				for tries := 0; tries < 8 && st.B == strag; tries++ {
					p = others[r.Intn(len(others))]
					if b := c.byPub[p.PubKeyString()]; b != nil {
						st.B = b.idx
					}
				}
			}
			if strag >= 0 && a.idx == strag && (r.Bool(0.5) || cfg.StragglerListens) {
				st.Kind = "pullonly"
			}
		}
		if cfg.PAsync > 0 && st.B >= 0 && r.Bool(cfg.PAsync) && c.parkedCount(a) < 3 {
			st.Kind = "async"
			switch r.Intn(4) {
			case 0:
				st.N = r.Range(1, 10) // pull response held back
			case 1:
				st.D = int64(r.Range(1, 10)) // push acknowledgement held back
			case 2:
				st.N = -r.Range(1, 10) // pull request held back
			default:
				st.N = r.Range(1, 6)
				st.D = -int64(r.Range(1, 6))
			}
			if r.Bool(0.3) {
				st.N, st.D = 0, 0
				st.Late = r.Range(1, 8)
			}
			return st
		}
		st.Pull, st.Late = legFault(c)
		if st.Pull != "late" {
			var l2 int
			st.Push, l2 = legFault(c)
			if st.Push == "late" {
				st.Late = l2
			}
		}
	case _state.Joining:
		if v := c.pickVia(a); v != nil {
			st.B = v.idx
		}
	case _state.Suspended:
		// a tick on a suspended node does nothing; pick someone else next time
	}
	return st
}

func (c *Cluster) pickVia(a *SimNode) *SimNode {
	cands := []*SimNode{}
	for _, p := range a.configuredPeers {
		if n := c.byPub[p.PubKeyString()]; n != nil && n != a && n.running() {
			cands = append(cands, n)
		}
	}
	if len(cands) == 0 {
		return nil
	}
	return cands[c.gen.Intn(len(cands))]
}

package sim

import (
	"fmt"
	"runtime"
	"strings"

	hg "github.com/mosaicnetworks/babble/src/hashgraph"
)

func topFrame() string {
	pcs := make([]uintptr, 64)
	n := runtime.Callers(3, pcs)
	frames := runtime.CallersFrames(pcs[:n])
	for {
		f, more := frames.Next()
		if strings.Contains(f.Function, "mosaicnetworks/babble/src/") && !strings.Contains(f.Function, ".Sim") {
			fn := f.Function[strings.LastIndex(f.Function, "/")+1:]
			return fn
		}
		if !more {
			break
		}
	}
	return "unknown"
}

// segment bookkeeping for C02 (per node)
type logCursor struct {
	checked    int // number of log entries already verified
	expectNext int // next index expected (-1: first of a segment)
	lastRR     int
	segFirst   int // first index of the current segment
	ffAnchor   int // anchor index if the segment started with a fast-forward (-1 otherwise)
}

func (c *Cluster) cursor(n *SimNode) *logCursor {
	if n.cur == nil {
		n.cur = &logCursor{expectNext: -1, lastRR: -1, segFirst: -1, ffAnchor: -1}
	}
	return n.cur
}

// newSegment is called when a node starts delivering from a new base: a new
// incarnation (bootstrap from 0) or a fast-forward reset (anchor+1).
func (c *Cluster) newSegment(n *SimNode, ffAnchor int) {
	cur := c.cursor(n)
	cur.checked = len(n.app.log)
	cur.expectNext = -1
	cur.lastRR = -1
	cur.segFirst = -1
	cur.ffAnchor = ffAnchor
	n.lastSigs = map[int]map[string]string{}
}

// checkC02 verifies the finality oracle for one node.
func (c *Cluster) checkC02(n *SimNode, full bool) {
	if n.app == nil {
		return
	}
	cur := c.cursor(n)
	log := n.app.log
	for ; cur.checked < len(log); cur.checked++ {
		d := log[cur.checked]
		if d.Shadow {
			continue
		}
		idx := d.Block.Index()
		rr := d.Block.RoundReceived()
		if cur.expectNext == -1 {
			want := 0
			if cur.ffAnchor >= 0 {
				want = cur.ffAnchor + 1
			}
			if idx != want {
				c.violate("C02", "consecutive", "first-index", "node %d: first delivered block of segment has index %d, want %d", n.idx, idx, want)
			}
			cur.segFirst = idx
		} else {
			if idx != cur.expectNext {
				c.violate("C02", "consecutive", "index-gap-or-repeat", "node %d delivered block %d, expected %d", n.idx, idx, cur.expectNext)
			}
			if rr <= cur.lastRR {
				c.violate("C02", "round-received-increasing", "rr-not-increasing", "node %d block %d has round-received %d, previous block had %d", n.idx, idx, rr, cur.lastRR)
			}
		}
		cur.expectNext = idx + 1
		cur.lastRR = rr
	}
	if !n.running() || cur.segFirst < 0 {
		return
	}
	// stored blocks: body frozen, signatures only grow
	last := cur.expectNext - 1
	from := cur.segFirst
	if !full && last-3 > from {
		from = last - 3
	}
	delivered := map[int]*Delivery{}
	for _, d := range log {
		if !d.Shadow && d.Epoch == n.epoch && d.Block.Index() >= cur.segFirst {
			delivered[d.Block.Index()] = d
		}
	}
	for i := from; i <= last; i++ {
		d := delivered[i]
		if d == nil {
			continue
		}
		// cooperative fault point: a persistent node's block cache may evict any
		// block at any time (that is all a smaller cache size does); the read
		// below is then served from the database
		if bs, ok := n.store.(*hg.BadgerStore); ok && i < last-1 && c.inner.Bool(0.15) {
			bs.SimEvictBlock(i)
			c.stats.fault("block-cache-eviction")
		}
		blk, err := n.node.GetBlock(i)
		if err != nil {
			c.stats.probe("stored-block-unavailable")
			continue
		}
		c.checkStoredBlock(n, i, blk, d)
	}
}

func (c *Cluster) checkStoredBlock(n *SimNode, i int, blk *hg.Block, d *Delivery) {
	got := bodyDigest(&blk.Body)
	want := d.Digest
	if d.AppError {
		// babble never received the response: the stored block is the delivered body as it was
		want = bodyDigest(&d.Block.Body)
	}
	if got != want {
		what := "body"
		full := d.Block
		if string(blk.Body.StateHash) != string(d.Resp.StateHash) {
			what = fmt.Sprintf("state hash (stored %x, application returned %x)", blk.Body.StateHash, d.Resp.StateHash)
		} else if len(blk.Body.InternalTransactionReceipts) != len(d.Resp.InternalTransactionReceipts) {
			what = fmt.Sprintf("receipts (stored %d, application returned %d)", len(blk.Body.InternalTransactionReceipts), len(d.Resp.InternalTransactionReceipts))
		} else if len(blk.Body.Transactions) != len(full.Body.Transactions) {
			what = "transactions"
		}
		key := "stored-body-changed"
		if strings.HasPrefix(what, "state hash") || strings.HasPrefix(what, "receipts") {
			key = "stored-block-lost-commit-response"
		}
		c.violate("C02", "stored-block-frozen", key, "node %d (%s store): stored block %d differs from what was delivered: %s", n.idx, n.storeKind, i, what)
	}
	prev := n.lastSigs[i]
	for k, v := range prev {
		if blk.Signatures[k] != v {
			c.violate("C02", "signatures-grow-only", "signature-lost-or-changed", "node %d: block %d lost or changed the signature of %s", n.idx, i, short(k))
		}
	}
	cp := make(map[string]string, len(blk.Signatures))
	for k, v := range blk.Signatures {
		cp[k] = v
	}
	n.lastSigs[i] = cp
}

// checkForksInRecord: in honest runs no creator ever has two events at one
// index anywhere in the network.
func (c *Cluster) checkForksInRecord() {
	if len(c.dag.forks) > c.forksReported {
		for _, f := range c.dag.forks[c.forksReported:] {
			if c.cfg.PByz == 0 {
				c.violate("C11", "no-self-fork", "self-fork", "two different events of one creator at one index observed: %s", f)
			}
		}
		c.forksReported = len(c.dag.forks)
	}
}

// finalStoreCheck compares every stored block of every full-history node with
// the canonical chain (C01, end of run).
func (c *Cluster) finalStoreCheck() {
	for _, n := range c.nodes {
		if !n.running() {
			continue
		}
		last := n.node.GetLastBlockIndex()
		for i := 0; i <= last; i++ {
			blk, err := n.node.GetBlock(i)
			if err != nil {
				continue
			}
			want, ok := c.chain[i]
			if !ok {
				continue
			}
			if n.ffDone && i <= n.cursor().ffAnchor {
				continue
			}
			if len(blk.Body.StateHash) == 0 && len(c.chainBody[i].Body.StateHash) != 0 {
				// not (yet) completed with the commit response: C02's business
				continue
			}
			if bodyDigest(&blk.Body) != want {
				c.violate("C01", "agreement-store", "stored-block-divergence", "node %d stores block %d with digest %s, canonical %s", n.idx, i, bodyDigest(&blk.Body), want)
			}
		}
	}
}

func (n *SimNode) cursor() *logCursor { return n.c.cursor(n) }

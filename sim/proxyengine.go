package sim

import (
	"bytes"
	"encoding/json"
	"fmt"
	"io"
	gonet "net"
	"sync"
	"testing/synctest"
	"time"

	"github.com/mosaicnetworks/babble/src/config"
	hg "github.com/mosaicnetworks/babble/src/hashgraph"
	"github.com/mosaicnetworks/babble/src/node/state"
	"github.com/mosaicnetworks/babble/src/peers"
	"github.com/mosaicnetworks/babble/src/proxy"
	"github.com/mosaicnetworks/babble/src/proxy/inmem"
	sapp "github.com/mosaicnetworks/babble/src/proxy/socket/app"
	sbabble "github.com/mosaicnetworks/babble/src/proxy/socket/babble"
)

/*******************************************************************************
E5 proxy engine (C20): the socket proxy pair (real net/rpc/jsonrpc client and
server code on both sides) runs over in-memory connections next to an in-memory
proxy with the same handler; calls are compared field by field; connections are
dropped and stalled at chosen phases of a call.
*******************************************************************************/

// memNet: in-memory listeners and fault-injecting connections.
type memNet struct {
	mu        sync.Mutex
	listeners map[string]chan gonet.Conn
	conns     []gonet.Conn
	// fault plan for the NEXT dialled/used connection towards an address
	dropAfterRead  map[string]int // close the server-side conn after it has read n bytes (-1: off)
	dropAfterWrite map[string]int // close after the server side has written n bytes
	refuse         map[string]int // number of dials to refuse
	stats          *Stats
}

func newMemNet(st *Stats) *memNet {
	return &memNet{listeners: map[string]chan gonet.Conn{}, dropAfterRead: map[string]int{}, dropAfterWrite: map[string]int{}, refuse: map[string]int{}, stats: st}
}

type memListener struct {
	addr string
	ch   chan gonet.Conn
}

func (l *memListener) Accept() (gonet.Conn, error) {
	c := <-l.ch // never fails: the proxies' accept loops cannot be stopped
	return c, nil
}
func (l *memListener) Close() error     { return nil }
func (l *memListener) Addr() gonet.Addr { return memAddr(l.addr) }

type memAddr string

func (a memAddr) Network() string { return "mem" }
func (a memAddr) String() string  { return string(a) }

func (m *memNet) listen(addr string) (gonet.Listener, bool) {
	m.mu.Lock()
	defer m.mu.Unlock()
	ch := make(chan gonet.Conn, 16)
	m.listeners[addr] = ch
	return &memListener{addr: addr, ch: ch}, true
}

// faultConn closes itself after a number of bytes read / written.
type faultConn struct {
	gonet.Conn
	readLeft, writeLeft int // -1: unlimited
	net                 *memNet
	closed              bool
}

func (f *faultConn) Read(p []byte) (int, error) {
	if f.readLeft == 0 {
		f.kill("drop-after-request-read")
		return 0, io.ErrClosedPipe
	}
	if f.readLeft > 0 && len(p) > f.readLeft {
		p = p[:f.readLeft]
	}
	n, err := f.Conn.Read(p)
	if f.readLeft > 0 {
		f.readLeft -= n
	}
	return n, err
}

func (f *faultConn) Write(p []byte) (int, error) {
	if f.writeLeft == 0 {
		f.kill("drop-mid-response")
		return 0, io.ErrClosedPipe
	}
	if f.writeLeft > 0 && len(p) > f.writeLeft {
		n, _ := f.Conn.Write(p[:f.writeLeft])
		f.writeLeft = 0
		f.kill("drop-mid-response")
		return n, io.ErrClosedPipe
	}
	n, err := f.Conn.Write(p)
	if f.writeLeft > 0 {
		f.writeLeft -= n
	}
	return n, err
}

func (f *faultConn) kill(kind string) {
	if !f.closed {
		f.closed = true
		f.net.stats.fault(kind)
		f.Conn.Close()
	}
}

func (m *memNet) dial(addr string) (gonet.Conn, bool, error) {
	m.mu.Lock()
	defer m.mu.Unlock()
	ch, ok := m.listeners[addr]
	if !ok {
		return nil, true, fmt.Errorf("connection refused (no listener at %s)", addr)
	}
	if m.refuse[addr] > 0 {
		m.refuse[addr]--
		m.stats.fault("dial-refused")
		return nil, true, fmt.Errorf("connection refused (simulated)")
	}
	cl, sv := gonet.Pipe()
	var server gonet.Conn = sv
	rl, okr := m.dropAfterRead[addr]
	wl, okw := m.dropAfterWrite[addr]
	if okr || okw {
		fc := &faultConn{Conn: sv, readLeft: -1, writeLeft: -1, net: m}
		if okr {
			fc.readLeft = rl
			delete(m.dropAfterRead, addr)
		}
		if okw {
			fc.writeLeft = wl
			delete(m.dropAfterWrite, addr)
		}
		server = fc
	}
	m.conns = append(m.conns, cl, sv)
	ch <- server
	return cl, true, nil
}

func (m *memNet) closeAll() {
	m.mu.Lock()
	defer m.mu.Unlock()
	for _, c := range m.conns {
		c.Close()
	}
}

// recHandler is the application: it records what it is given and answers with
// what the scenario prepared.
type recHandler struct {
	name     string
	blocks   []hg.Block
	snapReqs []int
	restores [][]byte
	states   []state.State
	nextResp proxy.CommitResponse
	nextSnap []byte
	nextHash []byte
	stall    time.Duration // sleep before answering (application stalled)
	failNext bool
	calls    int
}

func (h *recHandler) CommitHandler(b hg.Block) (proxy.CommitResponse, error) {
	h.calls++
	if h.stall > 0 {
		time.Sleep(h.stall)
	}
	h.blocks = append(h.blocks, b)
	if h.failNext {
		return proxy.CommitResponse{}, fmt.Errorf("application error")
	}
	return h.nextResp, nil
}
func (h *recHandler) SnapshotHandler(i int) ([]byte, error) {
	h.calls++
	if h.stall > 0 {
		time.Sleep(h.stall)
	}
	h.snapReqs = append(h.snapReqs, i)
	if h.failNext {
		return nil, fmt.Errorf("application error")
	}
	return h.nextSnap, nil
}
func (h *recHandler) RestoreHandler(s []byte) ([]byte, error) {
	h.calls++
	if h.stall > 0 {
		time.Sleep(h.stall)
	}
	h.restores = append(h.restores, s)
	if h.failNext {
		return nil, fmt.Errorf("application error")
	}
	return h.nextHash, nil
}
func (h *recHandler) StateChangeHandler(s state.State) error {
	h.calls++
	h.states = append(h.states, s)
	return nil
}

func genBytes(r *RNG) []byte {
	switch r.Intn(8) {
	case 0:
		return nil
	case 1:
		return []byte{}
	case 2:
		return r.Bytes(r.Range(1, 8))
	case 3:
		return r.Bytes(r.Range(1000, 70000)) // straddles 64 KiB buffers
	case 4:
		return []byte{0xff, 0xfe, 0x00, 0x80, 0xc3, 0x28} // not UTF-8
	case 5:
		return []byte("\"quoted\\\" \n\t  text")
	}
	return r.Bytes(r.Range(1, 200))
}

func genBlock(r *RNG, c *Cluster) hg.Block {
	var txs [][]byte
	switch r.Intn(4) {
	case 0:
		txs = nil
	case 1:
		txs = [][]byte{}
	default:
		for i := r.Intn(6); i >= 0; i-- {
			txs = append(txs, genBytes(r))
		}
	}
	var itxs []hg.InternalTransaction
	for i := r.Intn(3); i > 0; i-- {
		k := deriveKey(c.seed, 400+r.Intn(20))
		itx := hg.NewInternalTransaction(hg.TransactionType(r.Intn(2)), *newPeerFromKey(k))
		itx.Sign(k)
		itxs = append(itxs, itx)
	}
	ps := []*peers.Peer{}
	for i := r.Range(1, 4); i > 0; i-- {
		ps = append(ps, newPeerFromKey(deriveKey(c.seed, 420+i)))
	}
	b := hg.NewBlock(r.Intn(1000), r.Intn(1000), genBytes(r), ps, txs, itxs, int64(r.U64()))
	b.Body.StateHash = genBytes(r)
	if r.Bool(0.5) {
		for i := r.Intn(4); i >= 0; i-- {
			k := deriveKey(c.seed, 440+i)
			bs, _ := b.Sign(k)
			b.SetSignature(bs)
		}
	}
	return *b
}

func genResp(r *RNG, b *hg.Block) proxy.CommitResponse {
	resp := proxy.CommitResponse{StateHash: genBytes(r)}
	switch r.Intn(3) {
	case 0:
		resp.InternalTransactionReceipts = nil
	default:
		resp.InternalTransactionReceipts = []hg.InternalTransactionReceipt{}
		for _, itx := range b.InternalTransactions() {
			it := itx
			if r.Bool(0.5) {
				resp.InternalTransactionReceipts = append(resp.InternalTransactionReceipts, it.AsAccepted())
			} else {
				resp.InternalTransactionReceipts = append(resp.InternalTransactionReceipts, it.AsRefused())
			}
		}
	}
	return resp
}

func sameJSON(a, b interface{}) bool {
	ra, _ := json.Marshal(a)
	rb, _ := json.Marshal(b)
	return bytes.Equal(ra, rb)
}

// sameBlockContent: field by field (all transaction bytes, internal
// transactions, indexes, hashes, signatures); nil and empty slices that encode
// identically on the block's own JSON form are the same content.
func sameBlockContent(a, b *hg.Block) string {
	if a.Index() != b.Index() || a.RoundReceived() != b.RoundReceived() || a.Timestamp() != b.Timestamp() {
		return "index/round/timestamp"
	}
	if !bytes.Equal(a.StateHash(), b.StateHash()) || !bytes.Equal(a.FrameHash(), b.FrameHash()) || !bytes.Equal(a.PeersHash(), b.PeersHash()) {
		return "state/frame/peers hash"
	}
	if len(a.Transactions()) != len(b.Transactions()) {
		return fmt.Sprintf("transaction count %d/%d", len(a.Transactions()), len(b.Transactions()))
	}
	for i := range a.Transactions() {
		if !bytes.Equal(a.Transactions()[i], b.Transactions()[i]) {
			return fmt.Sprintf("transaction %d bytes", i)
		}
	}
	if !sameJSON(a.InternalTransactions(), b.InternalTransactions()) && !(len(a.InternalTransactions()) == 0 && len(b.InternalTransactions()) == 0) {
		return "internal transactions"
	}
	if !sameJSON(a.InternalTransactionReceipts(), b.InternalTransactionReceipts()) && !(len(a.InternalTransactionReceipts()) == 0 && len(b.InternalTransactionReceipts()) == 0) {
		return "receipts"
	}
	if len(a.Signatures) != len(b.Signatures) {
		return "signature count"
	}
	for k, v := range a.Signatures {
		if b.Signatures[k] != v {
			return "signature of " + short(k)
		}
	}
	ha, _ := a.Body.Hash()
	hb, _ := b.Body.Hash()
	if !bytes.Equal(ha, hb) {
		return "body hash (encoding-level difference, e.g. nil vs empty)"
	}
	return ""
}

func sameResp(a, b proxy.CommitResponse) bool {
	if !bytes.Equal(a.StateHash, b.StateHash) {
		return false
	}
	if len(a.InternalTransactionReceipts) == 0 && len(b.InternalTransactionReceipts) == 0 {
		return true
	}
	return sameJSON(a.InternalTransactionReceipts, b.InternalTransactionReceipts)
}

func (c *Cluster) runProxyEngine() {
	r := NewRNG(Mix(c.seed, 0x70726f78))
	mn := newMemNet(c.stats)
	sapp.SimListen = mn.listen
	sapp.SimDial = mn.dial
	sbabble.SimListen = mn.listen
	sbabble.SimDial = mn.dial
	defer func() {
		sapp.SimListen, sapp.SimDial, sbabble.SimListen, sbabble.SimDial = nil, nil, nil, nil
	}()
	conf := config.NewDefaultConfig()
	conf.LogLevel = "panic"
	conf.Logger().Logger.Out = io.Discard
	timeout := time.Second

	hSock := &recHandler{name: "socket"}
	hMem := &recHandler{name: "inmem"}
	// application side
	bp, err := sbabble.NewSocketBabbleProxy("node", "app", hSock, timeout, conf.Logger())
	if err != nil {
		panic(harnessError{"babble proxy: " + err.Error()})
	}
	// babble side
	ap, err := sapp.NewSocketAppProxy("app", "node", timeout, conf.Logger())
	if err != nil {
		panic(harnessError{"app proxy: " + err.Error()})
	}
	ip := inmem.NewInmemProxy(hMem, conf.Logger())

	// consumers of the submit channels (what the node's background loop does)
	var gotSock, gotMem [][]byte
	stop := make(chan struct{})
	go func() {
		for {
			select {
			case tx := <-ap.SubmitCh():
				gotSock = append(gotSock, tx)
			case tx := <-ip.SubmitCh():
				gotMem = append(gotMem, tx)
			case <-stop:
				return
			}
		}
	}()
	defer func() {
		close(stop)
		mn.closeAll()
		synctest.Wait()
	}()

	nOps := r.Range(20, 120)
	var submitted [][]byte
	var wantMem [][]byte
	for i := 0; i < nOps && c.failed("C20") == nil; i++ {
		// fault plan for this call
		fault := ""
		if r.Bool(0.25) {
			fault = []string{"refuse", "drop-request", "drop-response", "stall", "app-error"}[r.Intn(5)]
		}
		hSock.stall, hSock.failNext, hMem.failNext = 0, false, false
		side := "app" // State.* calls go to the application's listener
		switch fault {
		case "refuse":
			mn.refuse[side] = r.Range(1, 4)
		case "drop-request":
			mn.dropAfterRead[side] = r.Intn(40)
		case "drop-response":
			mn.dropAfterWrite[side] = r.Intn(40)
		case "stall":
			hSock.stall = time.Duration(r.Range(1100, 5000)) * time.Millisecond
		case "app-error":
			hSock.failNext, hMem.failNext = true, true
		}
		if fault == "refuse" || fault == "drop-request" || fault == "drop-response" {
			// faults bite on a fresh connection: make the next call dial again
			mn.closeAll()
			synctest.Wait()
		}
		c.stats.Ops["proxy-call"]++
		progress.Add(1)
		switch r.Intn(5) {
		case 0, 1: // CommitBlock
			b := genBlock(r, c)
			resp := genResp(r, &b)
			hSock.nextResp, hMem.nextResp = resp, resp
			nb := len(hSock.blocks)
			got, err := ap.CommitBlock(b)
			gotM, errM := ip.CommitBlock(b)
			synctest.Wait()
			if err == nil {
				if !sameResp(got, resp) {
					key := "commit-response-altered"
					if len(got.StateHash) == 0 && len(got.InternalTransactionReceipts) == 0 {
						key = "empty-success"
					}
					c.violate("C20", "response", key, "CommitBlock through the socket proxy returned no error but a response that differs from what the application returned (state hash %x vs %x, %d vs %d receipts), fault=%q", clip(got.StateHash, 8), clip(resp.StateHash, 8), len(got.InternalTransactionReceipts), len(resp.InternalTransactionReceipts), fault)
					break
				}
				if fault == "app-error" {
					c.violate("C20", "response", "error-reported-as-success", "the application returned an error for CommitBlock but the socket proxy reported success")
					break
				}
			} else {
				c.stats.probe("c20-call-failed-with-error")
			}
			if errM == nil && !sameResp(gotM, resp) {
				c.violate("C20", "response", "commit-response-altered", "CommitBlock through the in-memory proxy returned a different response than the application gave")
				break
			}
			// every delivery the application saw carries exactly the block's content
			for _, d := range hSock.blocks[nb:] {
				d := d
				if diff := sameBlockContent(&d, &b); diff != "" {
					c.violate("C20", "block-content", "block-altered-by-socket-proxy", "the application received through the socket proxy a block that differs from the one Babble passed: %s (fault=%q)", diff, fault)
					break
				}
			}
			if len(hMem.blocks) > 0 {
				last := hMem.blocks[len(hMem.blocks)-1]
				if diff := sameBlockContent(&last, &b); diff != "" {
					c.violate("C20", "block-content", "block-altered-by-inmem-proxy", "the application received through the in-memory proxy a block that differs from the one Babble passed: %s", diff)
				}
			}
			if len(hSock.blocks) > nb+1 {
				c.stats.probe("c20-block-delivered-more-than-once")
			}
			c.stats.probe("c20-commit-checked")
		case 2: // GetSnapshot / Restore
			snap := genBytes(r)
			hSock.nextSnap, hMem.nextSnap = snap, snap
			idx := r.Intn(1000)
			got, err := ap.GetSnapshot(idx)
			synctest.Wait()
			if err == nil && fault != "app-error" && !bytes.Equal(got, snap) {
				c.violate("C20", "response", "snapshot-altered", "GetSnapshot through the socket proxy returned %d bytes, the application returned %d (fault=%q)", len(got), len(snap), fault)
			}
			if err == nil && fault == "app-error" {
				c.violate("C20", "response", "error-reported-as-success", "the application returned an error for GetSnapshot but the socket proxy reported success")
			}
			if len(hSock.snapReqs) > 0 && hSock.snapReqs[len(hSock.snapReqs)-1] != idx && err == nil {
				c.violate("C20", "request", "snapshot-index-altered", "GetSnapshot(%d) reached the application as %d", idx, hSock.snapReqs[len(hSock.snapReqs)-1])
			}
			nr := len(hSock.restores)
			hSock.nextHash, hMem.nextHash = genBytes(r), nil
			err = ap.Restore(snap)
			synctest.Wait()
			if err == nil {
				if len(hSock.restores) == nr {
					c.violate("C20", "request", "restore-not-delivered", "Restore returned success but the application was never called")
				} else if !bytes.Equal(hSock.restores[len(hSock.restores)-1], snap) {
					c.violate("C20", "request", "restore-snapshot-altered", "Restore delivered %d bytes to the application, Babble passed %d", len(hSock.restores[len(hSock.restores)-1]), len(snap))
				}
			}
			c.stats.probe("c20-snapshot-checked")
		case 3: // OnStateChanged
			st := state.State(r.Intn(6))
			ns := len(hSock.states)
			err := ap.OnStateChanged(st)
			synctest.Wait()
			if err == nil && (len(hSock.states) == ns || hSock.states[len(hSock.states)-1] != st) {
				c.violate("C20", "request", "state-change-not-delivered", "OnStateChanged(%s) returned success but the application did not receive it", st)
			}
		case 4: // SubmitTx from the application side
			tx := genBytes(r)
			if r.Bool(0.3) {
				mn.refuse["node"] = r.Intn(3)
			}
			before := len(gotSock)
			want := append([]byte{}, tx...)
			// the application serialises into a scratch buffer that it reuses afterwards
			buf1 := append(make([]byte, 0, len(tx)+8), tx...)
			buf2 := append(make([]byte, 0, len(tx)+8), tx...)
			err := bp.SubmitTx(buf1)
			ip.SubmitTx(buf2)
			synctest.Wait()
			for k := range buf1 {
				buf1[k] = 0xEE
			}
			for k := range buf2 {
				buf2[k] = 0xEE
			}
			buf2 = append(buf2[:0], []byte("reused!!")...)
			wantMem = append(wantMem, want)
			tx = want
			if err == nil {
				submitted = append(submitted, tx)
				if len(gotSock) == before {
					c.violate("C20", "submit", "submitted-transaction-lost", "SubmitTx returned success but the transaction (%d bytes) never reached the node", len(tx))
				}
			}
			for _, g := range gotSock[before:] {
				if !bytes.Equal(g, tx) {
					c.violate("C20", "submit", "submitted-transaction-altered", "a transaction of %d bytes reached the node as %d different bytes", len(tx), len(g))
				}
			}
			c.stats.probe("c20-submit-checked")
		}
		c.trace.add(fmt.Sprintf("call%d:%s:%d:%d:%d", i, fault, len(hSock.blocks), len(gotSock), hSock.calls))
		// a stalled call leaves its timers behind: let them expire
		if fault == "stall" {
			time.Sleep(6 * time.Second)
			synctest.Wait()
			c.stats.fault("application-stalled-past-timeout")
		}
	}
	// order per connection: the accepted transactions arrive in submission order (duplicates allowed)
	j := 0
	for _, g := range gotSock {
		if j < len(submitted) && bytes.Equal(g, submitted[j]) {
			j++
		}
	}
	if j != len(submitted) && c.failed("C20") == nil {
		c.violate("C20", "submit", "submission-order-broken", "the %d transactions whose submission succeeded do not appear in that order among the %d transactions that reached the node", len(submitted), len(gotSock))
	}
	if len(gotMem) > 0 {
		c.stats.probe("c20-inmem-submissions")
	}
	// the in-memory proxy: exactly the submitted transactions, in order, byte-identical
	// (also after the application reused its buffers)
	if c.failed("C20") == nil {
		if len(gotMem) != len(wantMem) {
			c.violate("C20", "submit", "inmem-submission-count", "%d transactions were submitted through the in-memory proxy, %d reached the node", len(wantMem), len(gotMem))
		} else {
			for i := range wantMem {
				if !bytes.Equal(gotMem[i], wantMem[i]) {
					c.violate("C20", "submit", "submitted-transaction-altered", "transaction %d submitted through the in-memory proxy (%d bytes) is held by the node with different bytes after the application reused its buffer", i, len(wantMem[i]))
					break
				}
			}
		}
		for i, g := range gotSock {
			found := false
			for _, w := range wantMem {
				if bytes.Equal(g, w) {
					found = true
					break
				}
			}
			if !found {
				c.violate("C20", "submit", "submitted-transaction-altered", "transaction %d that reached the node through the socket proxy matches nothing that was submitted", i)
				break
			}
		}
	}
	// the in-memory proxy delivers exactly what was submitted, in order
	c.stats.Probes["c20-transactions-through-socket"] += len(gotSock)
	c.stats.Probes["c20-transactions-through-inmem"] += len(gotMem)
	c.stats.BlocksDelivered += len(hSock.blocks)
}

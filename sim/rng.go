package sim

// RNG is a splitmix64 generator. The harness owns every random choice; one
// integer seed decides a whole run.
type RNG struct{ s uint64 }

func NewRNG(seed uint64) *RNG { return &RNG{s: seed} }

func (r *RNG) U64() uint64 {
	r.s += 0x9e3779b97f4a7c15
	z := r.s
	z = (z ^ (z >> 30)) * 0xbf58476d1ce4e5b9
	z = (z ^ (z >> 27)) * 0x94d049bb133111eb
	return z ^ (z >> 31)
}

// Mix derives an independent stream seed from two values.
func Mix(a, b uint64) uint64 {
	r := RNG{s: a ^ (b * 0xd6e8feb86659fd93)}
	r.U64()
	return r.U64() ^ b
}

func (r *RNG) Intn(n int) int {
	if n <= 0 {
		return 0
	}
	return int(r.U64() % uint64(n))
}

func (r *RNG) Float() float64 { return float64(r.U64()>>11) / float64(1<<53) }

func (r *RNG) Bool(p float64) bool { return r.Float() < p }

func (r *RNG) Range(lo, hi int) int {
	if hi <= lo {
		return lo
	}
	return lo + r.Intn(hi-lo+1)
}

func (r *RNG) Perm(n int) []int {
	p := make([]int, n)
	for i := range p {
		p[i] = i
	}
	for i := n - 1; i > 0; i-- {
		j := r.Intn(i + 1)
		p[i], p[j] = p[j], p[i]
	}
	return p
}

// Pick chooses an index according to integer weights.
func (r *RNG) Pick(weights []int) int {
	tot := 0
	for _, w := range weights {
		tot += w
	}
	if tot <= 0 {
		return 0
	}
	x := r.Intn(tot)
	for i, w := range weights {
		if x < w {
			return i
		}
		x -= w
	}
	return len(weights) - 1
}

func (r *RNG) Bytes(n int) []byte {
	b := make([]byte, n)
	for i := range b {
		b[i] = byte(r.U64())
	}
	return b
}

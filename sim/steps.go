package sim

import (
	"encoding/json"
	"fmt"
	"os"
	"testing/synctest"
	"time"

	_state "github.com/mosaicnetworks/babble/src/node/state"
	"github.com/mosaicnetworks/babble/src/peers"
)

// Step is one resolved scheduler step. A list of steps plus the seed and the
// run configuration is one exactly repeatable execution.
type Step struct {
	Op     string          `json:"op"`
	A      int             `json:"a"`
	B      int             `json:"b,omitempty"`
	N      int             `json:"n,omitempty"`
	Tx     []byte          `json:"tx,omitempty"`
	Pull   string          `json:"pull,omitempty"`
	Push   string          `json:"push,omitempty"`
	Late   int             `json:"late,omitempty"`
	Groups []int           `json:"groups,omitempty"`
	D      int64           `json:"d,omitempty"`
	Kind   string          `json:"kind,omitempty"`
	F      float64         `json:"f,omitempty"`
	P      json.RawMessage `json:"p,omitempty"`
}

func (s *Step) String() string {
	raw, _ := json.Marshal(s)
	return string(raw)
}

func (c *Cluster) nodeAt(i int) *SimNode {
	if i < 0 || i >= len(c.nodes) {
		return nil
	}
	return c.nodes[i]
}

// findPeer returns the peer object for target in a's own selectable peer list.
func findPeer(a *SimNode, target *SimNode) *peers.Peer {
	ps := a.core().SelectorPeers()
	if ps == nil {
		return nil
	}
	for _, p := range ps.Peers {
		if p.PubKeyString() == target.pubHex {
			return p
		}
	}
	return nil
}

func selectablePeers(a *SimNode) []*peers.Peer {
	ps := a.core().SelectorPeers()
	if ps == nil {
		return nil
	}
	_, others := peers.ExcludePeer(ps.Peers, a.id)
	return others
}

// exec executes one step. Steps that do not apply (dead node, unknown peer)
// are no-ops, so that every sub-list of a schedule is a schedule.
func (c *Cluster) exec(s *Step) {
	c.stepNo++
	progress.Add(1)
	c.stats.Steps++
	c.stats.Ops[s.Op]++
	c.inner = NewRNG(Mix(c.seed^0x5bd1e995, uint64(c.stepNo)))
	if c.nesting == 0 {
		// (the sub-steps of a composite step are executed again by the composite
		// itself when the schedule is replayed: only the composite is recorded)
		c.steps = append(c.steps, s)
	}

	if debugTrace {
		sp := 0
		for _, n := range c.nodes {
			sp += n.storePoints
		}
		fmt.Fprintf(os.Stderr, "step %d: %s (store points so far %d)\n", c.stepNo, s.String(), sp)
	}
	c.net.deliverLate()
	c.resumeDue()

	func() {
		defer func() {
			if r := recover(); r != nil {
				if cs, ok := r.(crashSentinel); ok {
					c.finishCrash(cs.n)
					return
				}
				if he, ok := r.(harnessError); ok {
					panic(he)
				}
				c.onPanic(s, r)
			}
		}()
		c.execOp(s)
	}()

	c.net.legs = map[string]string{}
	c.net.pickID = 0
	c.hostile = false

	// tasks woken by this step run now, alone
	synctest.Wait()
	c.runWakeups()

	// every step costs a little simulated time (distinct instants)
	time.Sleep(time.Millisecond + time.Duration(c.stepNo%977)*time.Microsecond)
	synctest.Wait()
	c.runWakeups()

	c.afterStep(s)
}

func (c *Cluster) execOp(s *Step) {
	switch s.Op {
	case "tick":
		c.opTick(s)
	case "submit":
		c.opSubmit(s)
	case "synclimit":
		if n := c.nodeAt(s.A); n != nil && n.running() {
			n.node.SimSetSyncLimit(s.N)
		}
	case "partition":
		c.net.groups = map[int]int{}
		for i, g := range s.Groups {
			c.net.groups[i] = g
		}
	case "heal":
		c.net.groups = map[int]int{}
	case "silence":
		if n := c.nodeAt(s.A); n != nil {
			n.silent = true
		}
	case "unsilence":
		if n := c.nodeAt(s.A); n != nil {
			n.silent = false
		}
	case "advance":
		time.Sleep(time.Duration(s.D) * time.Millisecond)
	case "clock":
		if n := c.nodeAt(s.A); n != nil {
			n.clockOff = s.D
			n.clockMode = s.N
		}
	case "join":
		c.opJoin(s)
	case "leave":
		c.opLeave(s)
	case "rejoin":
		c.opRejoin(s)
	case "reff":
		c.opReFastForward(s)
	case "pilereff":
		c.opPileReFF(s)
	case "suspend":
		if n := c.nodeAt(s.A); n != nil && n.running() {
			c.drainTasksOf(n)
			n.node.Suspend()
		}
	case "crash":
		c.opCrash(s)
	case "restart":
		c.opRestart(s)
	case "cleanrestart":
		c.opCleanRestart(s)
	case "fair":
		c.opFairCycle(s)
	case "byz":
		c.opByz(s)
	case "nop":
	default:
		panic(harnessError{"unknown op " + s.Op})
	}
}

func (c *Cluster) opTick(s *Step) {
	a := c.nodeAt(s.A)
	if a == nil || !a.running() || a.silent {
		return
	}
	switch a.state() {
	case _state.Babbling:
		others := selectablePeers(a)
		if len(others) == 0 {
			a.node.SimMonologue()
			c.stats.probe("monologue")
		} else {
			b := c.nodeAt(s.B)
			if b == nil {
				return
			}
			p := findPeer(a, b)
			if p == nil {
				return
			}
			c.net.legs = map[string]string{"pull": s.Pull, "push": s.Push}
			c.net.lateK = s.Late
			if s.Kind == "async" {
				c.net.legs = map[string]string{}
				c.asyncTick(a, b, s)
				return
			}
			if s.Kind == "pullonly" {
				if _, err := a.node.SimPull(p); err != nil {
					c.stats.probe("pull-error")
				}
			} else {
				if err := a.node.SimGossip(p); err != nil {
					c.stats.probe("gossip-error")
					c.noteGossipError(a, err)
				}
			}
		}
		if a.running() {
			a.node.SimCheckSuspend()
			c.checkSuspendRule(a, _state.Babbling)
		}
	case _state.CatchingUp:
		c.net.legs = map[string]string{"ff": s.Pull}
		a.blocksBeforeFF = a.node.GetLastBlockIndex()
		err := a.node.SimFastForward()
		c.onFastForwardDone(a, err)
	case _state.Joining:
		c.startJoin(a, c.nodeAt(s.B))
	}
}

func (c *Cluster) opSubmit(s *Step) {
	a := c.nodeAt(s.A)
	if a == nil || !a.running() {
		return
	}
	if a.state() == _state.Shutdown {
		return
	}
	tx := make([]byte, len(s.Tx))
	copy(tx, s.Tx)
	switch s.N {
	case 1:
		tx = []byte{}
	case 2:
		tx = nil
	}
	if a.inproxy != nil && tx != nil {
		// through the in-process proxy, from a buffer the application reuses for
		// its next submission: what the node keeps must not alias it
		if cap(a.txBuf) < len(tx)+8 {
			a.txBuf = make([]byte, 0, 2*len(tx)+64)
		}
		buf := append(a.txBuf[:0], tx...)
		px := a.inproxy
		go px.SubmitTx(buf)
		got := <-px.SubmitCh()
		a.node.SimAddTransaction(got)
		for i := range buf {
			buf[i] = 0xEE // the application moves on
		}
		c.stats.probe("submit-through-inmem-proxy")
	} else {
		a.node.SimAddTransaction(tx)
	}
	c.ledger.submit(tx, a.idx, a.epoch, c.stepNo)
	a.acceptedTxs = append(a.acceptedTxs, tx)
}

// startJoin runs the real join() as a task: it blocks inside the target's
// processJoinRequest until the membership transaction went through consensus.
func (c *Cluster) startJoin(a, via *SimNode) {
	if a == nil || !a.running() || a.state() != _state.Joining {
		return
	}
	if a.task != nil && !a.task.done {
		return
	}
	if via != nil {
		c.net.pickID = via.id
	}
	t := &task{id: len(c.tasks), kind: "join", n: a, via: via}
	c.tasks = append(c.tasks, t)
	a.task = t
	nd := a.node
	go func() {
		defer func() {
			if r := recover(); r != nil {
				t.err = fmt.Errorf("panic: %v", r)
			}
			t.done = true
		}()
		t.err = nd.SimJoin()
	}()
	synctest.Wait()
	c.net.pickID = 0
}

func (c *Cluster) opJoin(s *Step) {
	if s.A == len(c.nodes) {
		c.addIdentity()
	}
	a := c.nodeAt(s.A)
	if a == nil {
		return
	}
	if !a.started {
		c.spawnJoiner(a, s)
	}
	c.startJoin(a, c.nodeAt(s.B))
}

func (c *Cluster) opLeave(s *Step) {
	a := c.nodeAt(s.A)
	if a == nil || !a.running() || a.state() != _state.Babbling {
		return
	}
	if a.task != nil && !a.task.done {
		return
	}
	t := &task{id: len(c.tasks), kind: "leave", n: a}
	c.tasks = append(c.tasks, t)
	a.task = t
	a.leaving = true
	c.drainTasksOf(a)
	nd := a.node
	ep := a.epoch
	go func() {
		defer func() {
			if r := recover(); r != nil {
				t.err = fmt.Errorf("panic: %v", r)
			}
			t.done = true
			if a.epoch == ep {
				// (a process killed and restarted in the meantime is not the one that left)
				a.left = true
			}
		}()
		defer func() {
			defer func() { recover() }()
			a.peersAtLeave = clonePeers(a.core().Peers().Peers)
			a.knownAtCrash = a.core().KnownEvents()
		}()
		t.err = nd.Leave()
	}()
	synctest.Wait()
}

// opFairCycle: one deterministic all-pairs round among live, non-silent
// babbling nodes: every one pulls from and pushes to every other.
func (c *Cluster) opFairCycle(s *Step) {
	c.fairMode = true
	c.fairCount++
	live := c.liveBabbling()
	for _, a := range live {
		for _, b := range live {
			if abortRun.Load() {
				return // wall-clock guard: the run is being abandoned (no liveness verdict)
			}
			if a == b || !a.running() || !b.running() {
				continue
			}
			if a.state() != _state.Babbling {
				continue
			}
			p := findPeer(a, b)
			if p == nil {
				continue
			}
			if err := a.node.SimGossip(p); err != nil {
				a.fairFail++
				a.fairLastErr = err.Error()
			} else {
				a.fairOK++
			}
			progress.Add(1)
			synctest.Wait()
			c.runWakeups()
			if c.fairQuiescentAt == 0 && c.cfg.Profile == "C06" && c.quiescent() {
				// everybody reports idle: the network would slow down now. Whatever
				// was accepted must be committed at this very moment, not merely by
				// the end of the cycle (checked by the profile's final hook).
				c.fairQuiescentAt = c.fairCount
				c.stats.probe("c06-quiescent-inside-a-cycle")
				return
			}
		}
		if a.running() && len(selectablePeers(a)) == 0 && a.state() == _state.Babbling {
			a.node.SimMonologue()
		}
	}
	// a cycle of exchanges takes time (timers of parked operations: leave polls every 100 ms)
	time.Sleep(150 * time.Millisecond)
	synctest.Wait()
	c.runWakeups()
	// nodes the Run loop would be driving through CatchingUp / Joining
	for _, n := range c.nodes {
		if !n.running() || n.silent {
			continue
		}
		switch n.state() {
		case _state.CatchingUp:
			n.blocksBeforeFF = n.node.GetLastBlockIndex()
			err := n.node.SimFastForward()
			c.onFastForwardDone(n, err)
		case _state.Joining:
			if n.task == nil || n.task.done {
				if len(live) > 0 {
					c.startJoin(n, live[c.stepNo%len(live)])
				}
			}
		}
	}
}

func (c *Cluster) liveBabbling() []*SimNode {
	res := []*SimNode{}
	for _, n := range c.nodes {
		if n.running() && !n.silent && !n.isObserver && n.state() == _state.Babbling {
			res = append(res, n)
		}
	}
	return res
}

func (c *Cluster) onPanic(s *Step, r interface{}) {
	msg := fmt.Sprintf("%v", r)
	frame := topFrame()
	if c.hostile {
		c.violate("C08", "no-panic", "panic@"+frame, "panic while processing hostile input (step %s): %s at %s", s.String(), msg, frame)
		return
	}
	c.violate("PANIC", "no-panic", "panic@"+frame, "panic in code under test during %s: %s at %s", s.String(), msg, frame)
}

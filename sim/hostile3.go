package sim

import (
	"bytes"
	"fmt"
	"sort"
	"strings"

	"github.com/mosaicnetworks/babble/src/crypto/keys"
	hg "github.com/mosaicnetworks/babble/src/hashgraph"
	"github.com/mosaicnetworks/babble/src/net"
	_state "github.com/mosaicnetworks/babble/src/node/state"
	"github.com/mosaicnetworks/babble/src/peers"
)

/*******************************************************************************
C12 / C14: fast-forward acceptance
*******************************************************************************/

// acceptable decides from the text of C12 whether a (block, frame) pair may be
// adopted: frame hashes to the block's frame hash, the frame's validator set
// hashes to the block's peer-set hash, and signatures of more than one third of
// DISTINCT members of that set verify against the block body.
func acceptable(block *hg.Block, frame *hg.Frame) (bool, string) {
	fh, err := frame.Hash()
	if err != nil {
		return false, "frame does not hash"
	}
	if !bytes.Equal(fh, block.FrameHash()) {
		return false, "frame hash mismatch"
	}
	for _, p := range frame.Peers {
		if p == nil {
			return false, "nil peer"
		}
	}
	ph, err := peers.NewPeerSet(frame.Peers).Hash()
	if err != nil || !bytes.Equal(ph, block.PeersHash()) {
		return false, "peer-set hash mismatch"
	}
	members := map[string]bool{}
	for _, p := range frame.Peers {
		b, err := decodeHex(p.PubKeyHex)
		if err != nil {
			continue
		}
		members[string(b)] = true
	}
	signed := map[string]bool{}
	for k, sig := range block.Signatures {
		b, err := decodeHex(k)
		if err != nil || !members[string(b)] {
			continue
		}
		if verifySig(&block.Body, "0X"+strings.ToUpper(fmt.Sprintf("%x", b)), sig) {
			signed[string(b)] = true
		}
	}
	n := len(members)
	if !moreThanThird(len(signed), n) {
		return false, fmt.Sprintf("%d valid signatures of distinct members, %d members", len(signed), n)
	}
	return true, ""
}

var ffTamperOps = []string{
	"none", "none",
	"body-index", "body-round", "body-timestamp", "body-statehash", "body-framehash", "body-peershash", "body-tx-append", "body-tx-alter", "body-itx-append", "body-receipts",
	"sigs-remove-to-threshold", "sigs-remove-one", "sigs-other-body", "sigs-add-stranger", "sigs-only-strangers", "sigs-below-threshold-plus-strangers", "sigs-reencode-lower", "sigs-reencode-prefix", "sigs-none",
	"frame-round", "frame-peers-reorder", "frame-peers-drop", "frame-peers-add", "frame-root-drop", "frame-root-event-field", "frame-root-annotation",
	"frame-event-drop", "frame-event-tx", "frame-event-annotation", "frame-peersets", "frame-timestamp",
	"body-statehash-resigned-by-one-member", "body-tx-append-resigned-by-one-member",
}

func flip(b []byte) []byte {
	out := append([]byte{}, b...)
	if len(out) == 0 {
		return []byte{1}
	}
	out[len(out)/2] ^= 0x40
	return out
}

// tamperFF applies one single-field tampering to a valid pair. Returns false if
// the operator does not apply to this pair.
func (c *Cluster) tamperFF(op string, block *hg.Block, frame *hg.Frame, r *RNG) bool {
	sigKeys := func() []string {
		ks := []string{}
		for k := range block.Signatures {
			ks = append(ks, k)
		}
		sort.Strings(ks)
		return ks
	}
	n := len(frame.Peers)
	need := n/3 + 1 // least k with 3k > n
	switch op {
	case "none":
	case "body-index":
		block.Body.Index++
	case "body-round":
		block.Body.RoundReceived++
	case "body-timestamp":
		block.Body.Timestamp++
	case "body-statehash":
		block.Body.StateHash = flip(block.Body.StateHash)
	case "body-framehash":
		block.Body.FrameHash = flip(block.Body.FrameHash)
	case "body-peershash":
		block.Body.PeersHash = flip(block.Body.PeersHash)
	case "body-tx-append":
		block.Body.Transactions = append(block.Body.Transactions, []byte("evil"))
	case "body-tx-alter":
		if len(block.Body.Transactions) == 0 {
			return false
		}
		block.Body.Transactions[0] = flip(block.Body.Transactions[0])
	case "body-itx-append":
		itx := hg.NewInternalTransaction(hg.PEER_ADD, *peers.NewPeer("0X04AA", "x", "y"))
		block.Body.InternalTransactions = append(block.Body.InternalTransactions, itx)
	case "body-receipts":
		itx := hg.NewInternalTransaction(hg.PEER_ADD, *peers.NewPeer("0X04AA", "x", "y"))
		block.Body.InternalTransactionReceipts = append(block.Body.InternalTransactionReceipts, itx.AsAccepted())
	case "body-statehash-resigned-by-one-member", "body-tx-append-resigned-by-one-member":
		// another body under the same index, round and frame hash; the genuine
		// block's signatures are replayed unchanged (they no longer verify), and
		// one member of the set - the Byzantine validator - signs the new body:
		// one valid signature, too few for any set of four or more
		byz := c.byzNode()
		if byz == nil || need < 2 {
			return false
		}
		member := false
		for _, p := range frame.Peers {
			if p.PubKeyString() == byz.pubHex {
				member = true
			}
		}
		if !member {
			return false
		}
		if op == "body-statehash-resigned-by-one-member" {
			block.Body.StateHash = flip(block.Body.StateHash)
		} else {
			block.Body.Transactions = append(block.Body.Transactions, []byte("evil"))
		}
		bs, err := block.Sign(byz.key)
		if err != nil {
			return false
		}
		block.Signatures[bs.ValidatorHex()] = bs.Signature
	case "sigs-remove-to-threshold":
		// keep exactly need-1 signatures: one too few
		ks := sigKeys()
		for len(ks) > need-1 {
			delete(block.Signatures, ks[len(ks)-1])
			ks = ks[:len(ks)-1]
		}
	case "sigs-remove-one":
		ks := sigKeys()
		if len(ks) == 0 {
			return false
		}
		delete(block.Signatures, ks[r.Intn(len(ks))])
	case "sigs-other-body":
		ks := sigKeys()
		if len(ks) == 0 {
			return false
		}
		// signatures by the right keys over ANOTHER body
		other := *block
		other.Body.Index += 7
		for _, k := range ks {
			if m := c.byPub[k]; m != nil {
				bs, _ := other.Sign(m.key)
				block.Signatures[k] = bs.Signature
			}
		}
	case "sigs-add-stranger":
		st := deriveKey(c.seed, 700+r.Intn(20))
		bs, _ := block.Sign(st)
		block.Signatures[bs.ValidatorHex()] = bs.Signature
	case "sigs-only-strangers":
		block.Signatures = map[string]string{}
		for i := 0; i < n+1; i++ {
			st := deriveKey(c.seed, 700+i)
			bs, _ := block.Sign(st)
			block.Signatures[bs.ValidatorHex()] = bs.Signature
		}
	case "sigs-below-threshold-plus-strangers":
		// one member signature too few, topped up with outsiders' signatures over the same body
		ks := sigKeys()
		if len(ks) == 0 || need < 2 {
			return false
		}
		for len(ks) > need-1 {
			delete(block.Signatures, ks[len(ks)-1])
			ks = ks[:len(ks)-1]
		}
		for i := 0; i < n; i++ {
			st := deriveKey(c.seed, 700+i)
			bs, _ := block.Sign(st)
			block.Signatures[bs.ValidatorHex()] = bs.Signature
		}
	case "sigs-reencode-lower", "sigs-reencode-prefix":
		// one real signer, under several spellings of its key; everything else removed
		ks := sigKeys()
		if len(ks) == 0 || need < 2 {
			return false
		}
		k := ks[0]
		sig := block.Signatures[k]
		block.Signatures = map[string]string{k: sig}
		if op == "sigs-reencode-lower" {
			block.Signatures["0X"+strings.ToLower(k[2:])] = sig
			block.Signatures["0x"+strings.ToLower(k[2:])] = sig
		} else {
			block.Signatures["0x"+k[2:]] = sig
			block.Signatures["0X"+strings.ToLower(k[2:4])+k[4:]] = sig
		}
		for len(block.Signatures) < need+1 {
			block.Signatures[fmt.Sprintf("0x%s%s", strings.ToLower(k[2:len(k)-len(block.Signatures)]), k[len(k)-len(block.Signatures):])] = sig
		}
	case "sigs-none":
		block.Signatures = map[string]string{}
	case "frame-round":
		frame.Round++
	case "frame-peers-reorder":
		if n < 2 {
			return false
		}
		frame.Peers[0], frame.Peers[n-1] = frame.Peers[n-1], frame.Peers[0]
	case "frame-peers-drop":
		if n < 2 {
			return false
		}
		frame.Peers = frame.Peers[:n-1]
	case "frame-peers-add":
		st := deriveKey(c.seed, 650)
		frame.Peers = append(frame.Peers, peers.NewPeer(keys.PublicKeyHex(&st.PublicKey), "s", "s"))
	case "frame-root-drop":
		for k := range frame.Roots {
			delete(frame.Roots, k)
			break
		}
	case "frame-root-event-field", "frame-root-annotation":
		done := false
		ks := []string{}
		for k := range frame.Roots {
			ks = append(ks, k)
		}
		sort.Strings(ks)
		for _, k := range ks {
			root := frame.Roots[k]
			if root != nil && len(root.Events) > 0 {
				fe := root.Events[len(root.Events)-1]
				if op == "frame-root-event-field" {
					fe.Core.Body.Timestamp++
				} else {
					switch r.Intn(3) {
					case 0:
						fe.Round++
					case 1:
						fe.LamportTimestamp++
					default:
						fe.Witness = !fe.Witness
					}
				}
				done = true
				break
			}
		}
		if !done {
			return false
		}
	case "frame-event-drop":
		if len(frame.Events) == 0 {
			return false
		}
		frame.Events = frame.Events[:len(frame.Events)-1]
	case "frame-event-tx":
		if len(frame.Events) == 0 {
			return false
		}
		fe := frame.Events[r.Intn(len(frame.Events))]
		fe.Core.Body.Transactions = append(fe.Core.Body.Transactions, []byte("evil"))
	case "frame-event-annotation":
		if len(frame.Events) == 0 {
			return false
		}
		fe := frame.Events[r.Intn(len(frame.Events))]
		switch r.Intn(3) {
		case 0:
			fe.Round++
		case 1:
			fe.LamportTimestamp++
		default:
			fe.Witness = !fe.Witness
		}
	case "frame-peersets":
		ks := []int{}
		for k := range frame.PeerSets {
			ks = append(ks, k)
		}
		sort.Ints(ks)
		if len(ks) == 0 {
			return false
		}
		k := ks[len(ks)-1]
		frame.PeerSets[k+3] = frame.PeerSets[k]
	case "frame-timestamp":
		frame.Timestamp++
	default:
		return false
	}
	return true
}

// ensureObserver (re)creates the spare node the fast-forward inputs are fed to:
// a configured participant of nothing, in its initial state.
func (c *Cluster) ensureObserver(fresh bool) *SimNode {
	if c.observer != nil && !fresh && c.observer.running() {
		return c.observer
	}
	if c.observer != nil && c.observer.running() {
		func() {
			defer func() { recover() }()
			c.observer.node.Shutdown()
		}()
	}
	var o *SimNode
	if c.observer == nil {
		o = c.addIdentity()
		c.observer = o
	} else {
		o = c.observer
		o.epoch++
		o.app = nil
	}
	o.storeKind = "inmem"
	o.cacheSize = c.cfg.CacheSize
	o.fastSync = true
	byz := c.byzNode()
	// it lists itself and the Byzantine peer: Init puts it into CatchingUp and
	// every FastForwardRequest it makes goes to the Byzantine peer
	o.configuredPeers = []*peers.Peer{o.peer()}
	if byz != nil {
		o.configuredPeers = append(o.configuredPeers, byz.peer())
	}
	o.genesisPeers = nil
	for _, m := range c.genesisSet {
		o.genesisPeers = append(o.genesisPeers, m.peer())
	}
	o.isObserver = true
	if err := c.startNode(o, false); err != nil {
		panic(harnessError{"observer: " + err.Error()})
	}
	c.newSegment(o, -1)
	return o
}

// ffTriple is a response the observer has adopted (kept so that later steps can
// offer tampered copies of the very same pair to the very same node).
type ffTriple struct {
	block    hg.Block
	frame    hg.Frame
	snapshot []byte
}

func (c *Cluster) byzFFStep(s *Step) {
	r := c.inner
	byz := c.byzNode()
	// a valid triple from an honest node
	var server *SimNode
	hs := c.honestRunning()
	if len(hs) == 0 {
		return
	}
	start := s.A % len(hs)
	var blk *hg.Block
	var frm *hg.Frame
	for i := 0; i < len(hs); i++ {
		cand := hs[(start+i)%len(hs)]
		if cand.isObserver || cand.state() != _state.Babbling {
			continue
		}
		b, f, err := cand.core().GetAnchorBlockWithFrame()
		if err == nil {
			server, blk, frm = cand, b, f
			break
		}
	}
	if server == nil {
		c.stats.probe("c12-no-anchor-yet")
		return
	}
	block, frame := hg.Block{}, hg.Frame{}
	cloneJSON(blk, &block)
	cloneJSON(frm, &frame)
	if block.Signatures == nil {
		block.Signatures = map[string]string{}
	}
	snapshot, _ := server.app.GetSnapshot(block.Index())
	replayed := false
	if c.ffAccepted != nil && c.observer != nil && c.observer.running() && r.Bool(0.6) {
		// the pair the observer adopted earlier, offered to it again with one field tampered
		block, frame = hg.Block{}, hg.Frame{}
		cloneJSON(&c.ffAccepted.block, &block)
		cloneJSON(&c.ffAccepted.frame, &frame)
		if block.Signatures == nil {
			block.Signatures = map[string]string{}
		}
		snapshot = c.ffAccepted.snapshot
		replayed = true
		c.stats.probe("ff-attempt-on-previously-adopted-pair")
	}
	op := ffTamperOps[s.N%len(ffTamperOps)]
	if s.Kind == "forge-set" {
		op = "forged-validator-set"
		if c.lastForged != nil && r.Bool(0.5) {
			// a persistent forger: the very same response again (a catching-up node
			// that refused it asks again)
			block, frame = hg.Block{}, hg.Frame{}
			cloneJSON(&c.lastForged.block, &block)
			cloneJSON(&c.lastForged.frame, &frame)
			c.stats.probe("ff-forged-set-offered-again")
		} else {
			c.forgeValidatorSet(&block, &frame, r)
			t := &ffTriple{}
			cloneJSON(&block, &t.block)
			cloneJSON(&frame, &t.frame)
			c.lastForged = t
		}
	} else if c.lastTampered != nil && !replayed && r.Bool(0.25) {
		// the very same tampered response again (a node that refused it asks again)
		block, frame = hg.Block{}, hg.Frame{}
		cloneJSON(&c.lastTampered.block, &block)
		cloneJSON(&c.lastTampered.frame, &frame)
		if block.Signatures == nil {
			block.Signatures = map[string]string{}
		}
		op = c.lastTamperedOp
		c.stats.probe("ff-tampered-response-offered-again")
	} else if !c.tamperFF(op, &block, &frame, r) {
		return
	} else if !replayed {
		t := &ffTriple{}
		cloneJSON(&block, &t.block)
		cloneJSON(&frame, &t.frame)
		c.lastTampered, c.lastTamperedOp = t, op
	}
	ok, why := acceptable(&block, &frame)
	prop := "C12"
	if op == "forged-validator-set" {
		prop = "C14"
		ok, why = false, "every signature comes from keys outside all validator sets the node has reason to trust"
	}
	c.stats.probe("ff-attempt:" + op)

	victim := c.ensureObserver(false)
	// Node.fastForward asks every peer the node knows: only a fresh observer
	// (which knows nobody but the forger) is sure to be answered by the forger
	nodeLevel := s.B == 1 && byz != nil && c.ffAccepted == nil
	if s.B == 2 && !replayed {
		// a running honest node as victim: only for responses that must be refused
		if ok {
			return
		}
		cands := []*SimNode{}
		for _, n := range hs {
			if !n.isObserver && n != server {
				cands = append(cands, n)
			}
		}
		if len(cands) == 0 {
			return
		}
		victim = cands[r.Intn(len(cands))]
	}
	if op == "forged-validator-set" && byz != nil && c.ffAccepted == nil && s.B != 2 && r.Bool(0.4) {
		// a joining node whose only configured peer is the forger: the forger first
		// answers its JoinRequest ("accepted", with a list of current validators of
		// its own invention), then its FastForwardRequest with the forged set -
		// an unauthenticated peer list must not become a reason to trust
		if v := c.joinThroughForger(byz, &frame); v != nil {
			victim = v
			nodeLevel = true
			c.stats.probe("ff-forged-set-after-forged-join-response")
		}
	}
	before := c.digest(victim)
	c.hostile, c.hostileSeen = true, true
	var err error
	if nodeLevel && victim.isObserver && victim.state() == _state.CatchingUp {
		resp := &net.FastForwardResponse{FromID: byz.id, Block: block, Frame: frame, Snapshot: snapshot}
		c.net.responders[byz.addr] = func(k string, args interface{}) (interface{}, error) {
			if k == "ff" {
				return resp, nil
			}
			return nil, errRefused
		}
		err = victim.node.SimFastForward()
		delete(c.net.responders, byz.addr)
		if err != nil && strings.Contains(err.Error(), "getBestFastForwardResponse returned nil") {
			// block index 0 is never chosen by getBestFastForwardResponse: not a verdict
			c.ffAccepted = nil
			c.ensureObserver(true)
			return
		}
	} else {
		nodeLevel = false
		b2, f2 := hg.Block{}, hg.Frame{}
		cloneJSON(&block, &b2)
		cloneJSON(&frame, &f2)
		err = victim.core().CoreFastForward(&b2, &f2)
	}
	c.hostile = false
	after := c.digest(victim)
	level := "core.fastForward"
	if nodeLevel {
		level = "Node.fastForward"
	}
	if !ok {
		if err == nil {
			key := "unacceptable-response-adopted:" + op
			c.violate(prop, "acceptance", key, "node %d adopted a fast-forward response through %s that must be refused (%s): %s", victim.idx, level, op, why)
		} else if before.all() != after.all() {
			c.violate(prop, "refusal-leaves-state", "refused-response-changed-state:"+level, "node %d refused a fast-forward response (%s, through %s) but its state changed: %s", victim.idx, op, level, before.diff(after))
		}
		c.stats.probe("ff-refused")
	} else {
		// the statement is one-directional ("adopts only if"): refusing an
		// acceptable response is not a violation, only counted
		if err != nil {
			c.stats.probe("ff-acceptable-but-refused")
		} else {
			c.stats.probe("ff-accepted")
		}
	}
	if victim.isObserver && (err == nil || before.all() != after.all()) {
		if ok && err == nil && r.Bool(0.6) {
			// keep this observer: it has adopted a valid pair, remember which
			t := &ffTriple{snapshot: snapshot}
			cloneJSON(&block, &t.block)
			cloneJSON(&frame, &t.frame)
			c.ffAccepted = t
		} else {
			c.ffAccepted = nil
			c.ensureObserver(true)
		}
	}
}

// joinThroughForger starts a fresh observer that is not among its own configured
// peers (state Joining), lets the real Node.join() talk to the forger and returns
// the node once it is CatchingUp (nil if the join did not get there).
func (c *Cluster) joinThroughForger(byz *SimNode, frame *hg.Frame) *SimNode {
	if c.observer != nil && c.observer.running() {
		func() {
			defer func() { recover() }()
			c.observer.node.Shutdown()
		}()
	}
	var o *SimNode
	if c.observer == nil {
		o = c.addIdentity()
		c.observer = o
	} else {
		o = c.observer
		o.epoch++
		o.app = nil
	}
	o.storeKind = "inmem"
	o.cacheSize = c.cfg.CacheSize
	o.fastSync = true
	o.configuredPeers = []*peers.Peer{byz.peer()}
	o.genesisPeers = nil
	for _, m := range c.genesisSet {
		o.genesisPeers = append(o.genesisPeers, m.peer())
	}
	o.isObserver = true
	if err := c.startNode(o, false); err != nil {
		panic(harnessError{"joining observer: " + err.Error()})
	}
	c.newSegment(o, -1)
	if o.state() != _state.Joining {
		return nil
	}
	forgedPeers := clonePeers(frame.Peers)
	c.net.responders[byz.addr] = func(k string, args interface{}) (interface{}, error) {
		if k == "join" {
			return &net.JoinResponse{FromID: byz.id, Accepted: true, AcceptedRound: frame.Round + 1, Peers: forgedPeers}, nil
		}
		return nil, errRefused
	}
	c.hostile, c.hostileSeen = true, true
	err := o.node.SimJoin()
	c.hostile = false
	delete(c.net.responders, byz.addr)
	if err != nil || !o.running() || o.state() != _state.CatchingUp {
		return nil
	}
	return o
}

// forgeValidatorSet builds an internally consistent (block, frame) whose
// validator set is made of keys of the forger's own invention, correctly
// hashed and signed by that set.
func (c *Cluster) forgeValidatorSet(block *hg.Block, frame *hg.Frame, r *RNG) {
	m := 1 + r.Intn(4)
	ks := []*SimNode{}
	for i := 0; i < m; i++ {
		k := deriveKey(c.seed, 600+i)
		ks = append(ks, &SimNode{key: k, pubHex: keys.PublicKeyHex(&k.PublicKey), pubB: keys.FromPublicKey(&k.PublicKey)})
	}
	ps := []*peers.Peer{}
	for i, k := range ks {
		ps = append(ps, peers.NewPeer(k.pubHex, fmt.Sprintf("evil%d", i), "evil"))
	}
	frame.Peers = ps
	frame.Roots = map[string]*hg.Root{}
	for _, k := range ks {
		frame.Roots[k.pubHex] = hg.NewRoot()
	}
	frame.Events = []*hg.FrameEvent{}
	frame.PeerSets = map[int][]*peers.Peer{0: ps}
	frame.Round = 1000 + r.Intn(1000)
	frame.Timestamp = 1
	fh, _ := frame.Hash()
	nb := hg.NewBlock(500+r.Intn(500), frame.Round, fh, ps, [][]byte{[]byte("stolen funds")}, nil, 1)
	nb.Body.StateHash = []byte("forged state")
	for _, k := range ks {
		bs, _ := nb.Sign(k.key)
		nb.SetSignature(bs)
	}
	*block = *nb
}

func init() {
	ffProfile := func(name string, forged bool) *profile {
		return &profile{
			config: func(r *RNG, thorough bool) *RunConfig {
				cfg := baseConfig(name, r, thorough)
				cfg.N0 = []int{1, 2, 3, 4, 4, 5, 5, 1}[r.Intn(8)]
				cfg.Stores = make([]string, cfg.N0)
				for i := range cfg.Stores {
					cfg.Stores[i] = "inmem"
				}
				cfg.Byz = 1
				if cfg.N0 < 4 {
					cfg.Byz = 0
				}
				cfg.PByz = 0.2
				cfg.PSilence = 0
				cfg.PPartition = 0
				cfg.PSubmit = 0.3
				if r.Bool(0.5) {
					cfg.PJoin = 0.015
					cfg.PLeave = 0.008
					cfg.MaxJoins = 2
					cfg.MaxLeaves = 1
				}
				if thorough {
					cfg.Steps = r.Range(100, 300)
				} else {
					cfg.Steps = r.Range(70, 200)
				}
				return cfg
			},
			run: func(c *Cluster, spec *runSpec) {
				c.byzHandler = c.byzFFStep
				c.byzGen = func(g *genState) *Step {
					st := &Step{Op: "byz", Kind: "fftamper", A: c.gen.Intn(8), N: c.gen.Intn(len(ffTamperOps)), B: c.gen.Intn(3)}
					if forged {
						st.Kind = "forge-set"
					}
					return st
				}
				clusterRun(c, spec)
			},
		}
	}
	profiles["C12"] = ffProfile("C12", false)
	profiles["C14"] = ffProfile("C14", true)
}

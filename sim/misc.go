package sim

import (
	"fmt"
	"os"
	"time"

	hg "github.com/mosaicnetworks/babble/src/hashgraph"

	_state "github.com/mosaicnetworks/babble/src/node/state"
)

// describe gives a one-line summary of every node (for violation messages).
func (c *Cluster) describe() string {
	s := ""
	for _, n := range c.nodes {
		if !n.started {
			s += fmt.Sprintf("[n%d not started] ", n.idx)
			continue
		}
		if !n.running() {
			s += fmt.Sprintf("[n%d down crashed=%v dead=%v left=%v] ", n.idx, n.crashed, n.dead, n.left)
			continue
		}
		core := n.core()
		h := core.Hashgraph()
		lcr := -1
		if h.LastConsensusRound != nil {
			lcr = *h.LastConsensusRound
		}
		tk := ""
		if n.task != nil && !n.task.done {
			tk = " task=" + n.task.kind
		}
		s += fmt.Sprintf("[n%d %s silent=%v busy=%v lcr=%d lastRound=%d target=%d accepted=%d removed=%d blk=%d und=%d pools=%d/%d/%d pendLoaded=%d seq=%d peers=%d vals=%d%s] ",
			n.idx, n.state(), n.silent, core.Busy(), lcr, h.Store.LastRound(), core.TargetRound(), core.AcceptedRound(), core.RemovedRound(),
			h.Store.LastBlockIndex(), len(h.UndeterminedEvents), len(core.TransactionPool()), len(core.InternalTransactionPool()), len(core.SelfBlockSignatures()),
			h.PendingLoadedEvents, core.Seq(), core.Peers().Len(), core.Validators().Len(), tk)
	}
	for _, n := range c.liveBabbling() {
		h := n.core().Hashgraph()
		s += fmt.Sprintf(" loaded-undetermined@n%d:", n.idx)
		for _, x := range h.UndeterminedEvents {
			ev, err := h.Store.GetEvent(x)
			if err != nil || !ev.IsLoaded() {
				continue
			}
			cr := c.byPub[ev.Creator()]
			ci := -1
			if cr != nil {
				ci = cr.idx
			}
			s += fmt.Sprintf(" (n%d#%d round=%d rr=%d txs=%d itxs=%d sp=%v op=%v)", ci, ev.Index(), ev.SimRound(), ev.SimRoundReceived(), len(ev.Transactions()), len(ev.InternalTransactions()), ev.SelfParent() != "", ev.OtherParent() != "")
		}
		break
	}
	return s
}

// opRejoin: a persistent node that left the network earlier is restarted with
// bootstrap (it is no longer in its own peer list, hence Joining) and asks to
// be let in again.
func (c *Cluster) opRejoin(s *Step) {
	a := c.nodeAt(s.A)
	if a == nil || !a.left || a.storeKind != "badger" || a.ffDone {
		return
	}
	if a.task != nil && !a.task.done {
		return
	}
	if a.running() && a.state() != _state.Shutdown {
		return
	}
	if a.peersAtLeave != nil {
		a.configuredPeers = a.peersAtLeave
	}
	delete(c.byPath, a.dbPath)
	prevEpoch := a.epoch
	a.epoch++
	a.left = false
	a.leaving = false
	c.newSegment(a, -1)
	if err := c.startNode(a, true); err != nil {
		c.violate("C11", "restart", "bootstrap-error", "node %d: restart with bootstrap (rejoin) failed: %v", a.idx, err)
		a.dead = true
		a.node = nil
		return
	}
	delete(c.dag.harvest, a.idx)
	c.stats.probe("rejoin-restart")
	c.checkRecovery(a, a, prevEpoch, a.knownAtCrash, nil)
	c.startJoin(a, c.nodeAt(s.B))
}

// fairSuffix: after the generated prefix all faults stop; the live validators
// exchange syncs fairly. Used by every profile that ends with liveness or
// end-state checks.
func (c *Cluster) fairSuffix(spec *runSpec) {
	c.fairMode = true
	c.drainAllTasks()
	c.exec(&Step{Op: "heal"})
	for _, n := range c.nodes {
		if n.running() {
			c.exec(&Step{Op: "synclimit", A: n.idx, N: c.cfg.SyncLimit})
		}
	}
	c.fairBoundV = c.computeFairBound()
	if c.fairBoundV > 120 {
		// too expensive to run to the bound within a run's budget: no verdict
		c.stats.probe("fair-suffix-skipped-backlog")
		c.fairBoundV = 0
		return
	}
	bound := c.fairBound()
	for i := 0; i < bound; i++ {
		if debugTrace {
			fmt.Fprintf(os.Stderr, "fair cycle %d/%d abort=%v real=%v\n", i, bound, abortRun.Load(), time.Since(c.realStart))
		}
		c.exec(&Step{Op: "fair"})
		if c.stopNow(spec) {
			return
		}
		if c.fairQuiescentAt > 0 {
			break
		}
		if abortRun.Load() {
			c.capped = true
			c.stats.probe("run-aborted-wall-clock")
			break
		}
		if c.tooBig() {
			// cost cap: no liveness verdict from this run
			c.capped = true
			c.stats.probe("fair-suffix-capped-undetermined")
			break
		}
	}
	c.stats.probeMax("fair-cycles-max", c.fairQuiescentAt)
}

// fairBound: K = 30 + 4*ceil(backlog / (syncLimit*(m-1))) all-pairs cycles,
// where backlog is the largest number of events any live node lacks at the
// start of the suffix and m the number of live nodes. Far above what the
// algorithm needs (a handful of cycles in the benign case).
func (c *Cluster) fairBound() int {
	if c.fairBoundV > 0 {
		return c.fairBoundV
	}
	return 30
}

func (c *Cluster) computeFairBound() int {
	live := c.liveBabbling()
	maxKnown := map[uint32]int{}
	for _, n := range live {
		for id, k := range n.core().KnownEvents() {
			if cur, ok := maxKnown[id]; !ok || k > cur {
				maxKnown[id] = k
			}
		}
	}
	backlog := 0
	for _, n := range live {
		kn := n.core().KnownEvents()
		lack := 0
		for id, mk := range maxKnown {
			k, ok := kn[id]
			if !ok {
				k = -1
			}
			if mk > k {
				lack += mk - k
			}
		}
		if lack > backlog {
			backlog = lack
		}
	}
	m := len(live)
	if m < 2 {
		return 30
	}
	lim := c.cfg.SyncLimit
	if lim < 1 {
		lim = 1
	}
	per := lim * (m - 1)
	return 30 + 4*((backlog+per-1)/per)
}

// quiescent: no live babbling node is busy and no task is pending.
func (c *Cluster) quiescent() bool {
	if !c.allIdle() {
		return false
	}
	// a pending membership request counts only if it was accepted by a live node
	for _, t := range c.tasks {
		if t.done || !t.n.running() || t.n.silent {
			continue
		}
		holder := t.via
		if holder == nil {
			holder = t.n
		}
		if holder.running() && !holder.silent && holder.state() == _state.Babbling {
			return false
		}
	}
	for _, n := range c.nodes {
		if n.running() && !n.silent && n.state() == _state.CatchingUp {
			return false
		}
	}
	return true
}

func (c *Cluster) genByz(g *genState) *Step {
	if c.byzGen != nil {
		return c.byzGen(g)
	}
	return nil
}

func (c *Cluster) opByz(s *Step) {
	if c.byzHandler != nil {
		c.byzHandler(s)
	}
}

// opPileReFF is a composite step (C13): two validators a and b exchange syncs
// among themselves only, piling up events inside one round; a persistent
// victim v learns the lower part of the pile (and hands its own event back),
// then hears nothing while the pile grows and the others commit it; v then
// fast-forwards again with the lower part of the pile still in its database.
// The roots of the anchor frame then consist of pile events without any witness.
func (c *Cluster) opPileReFF(s *Step) {
	v, a, b := c.nodeAt(s.A), c.nodeAt(s.B), c.nodeAt(s.N)
	if v == nil || a == nil || b == nil || v == a || v == b || a == b {
		return
	}
	for _, n := range []*SimNode{v, a, b} {
		if !n.running() || n.silent || n.state() != _state.Babbling || n.leaving || (n.task != nil && !n.task.done) {
			return
		}
	}
	if findPeer(a, b) == nil || findPeer(b, a) == nil || findPeer(v, a) == nil || findPeer(a, v) == nil {
		return
	}
	k1, k2, m := int(s.D%100), int(s.D/100%100), int(s.D/10000)
	c.nesting++
	defer func() { c.nesting-- }()
	c.stats.probe("pile-reff")
	pair := func(k int) {
		for i := 0; i < k; i++ {
			x, y := a, b
			if i%2 == 1 {
				x, y = b, a
			}
			if !x.running() || !y.running() {
				return
			}
			c.exec(&Step{Op: "tick", A: x.idx, B: y.idx})
		}
	}
	pair(k1)
	c.exec(&Step{Op: "tick", A: v.idx, B: a.idx, Kind: "pullonly"})
	c.exec(&Step{Op: "tick", A: a.idx, B: v.idx, Kind: "pullonly"})
	pair(k2)
	wasSilent := v.silent
	for i := 0; i < m+60; i++ {
		v.silent = wasSilent
		if i >= m/4 && c.canReFastForward(v, false) {
			break
		}
		v.silent = true
		live := []*SimNode{}
		for _, n := range c.liveBabbling() {
			if n != v {
				live = append(live, n)
			}
		}
		if len(live) < 2 {
			break
		}
		x := live[c.inner.Intn(len(live))]
		y := live[c.inner.Intn(len(live))]
		if x == y {
			continue
		}
		c.exec(&Step{Op: "tick", A: x.idx, B: y.idx})
	}
	v.silent = wasSilent
	if v.running() {
		if c.canReFastForward(v, false) {
			c.stats.probe("pile-reff-reset-reached")
		}
		c.exec(&Step{Op: "reff", A: v.idx})
	}
}

// opReFastForward: a running node that has fallen behind goes through the
// real Node.fastForward() again (CatchingUp), as a node restarted with fast-sync
// would. It is only done when the reset cannot make the node forget events of
// its own (which would turn it into an equivocator through no fault of the code).
// canReFastForward: the node is babbling, some reachable peer offers an anchor
// above its last block, and all of the node's own events are covered by that
// anchor's frame.
func (c *Cluster) canReFastForward(a *SimNode, probe bool) bool {
	if a == nil || !a.running() || a.state() != _state.Babbling || a.leaving || a.isObserver || a.silent {
		return false
	}
	if a.task != nil && !a.task.done {
		return false
	}
	if c.parkedCount(a) > 0 {
		return false
	}
	// the anchor it would get: highest block index among its reachable peers
	best := -1
	var bestFrame *hg.Frame
	for _, p := range selectablePeers(a) {
		m := c.byPub[p.PubKeyString()]
		if m == nil || !m.running() || m.silent || !c.net.reachable(a, m) || m.state() != _state.Babbling {
			continue
		}
		b, f, err := m.core().GetAnchorBlockWithFrame()
		if err != nil {
			continue
		}
		if b.Index() > best {
			best, bestFrame = b.Index(), f
		}
	}
	if bestFrame == nil || (best <= a.node.GetLastBlockIndex() && !c.cfg.BackwardReFF) {
		return false
	}
	if best <= a.node.GetLastBlockIndex() && probe {
		// the anchor lags the tip: a node that is up to date resets itself to a
		// block below its own last block
		c.stats.probe("re-fast-forward-backwards")
	}
	a.expectedAnchor = best
	// all of a's own events must be covered by the frame
	maxOwn := -1
	if r, ok := bestFrame.Roots[a.pubHex]; ok && r != nil {
		for _, fe := range r.Events {
			if fe.Core.Index() > maxOwn {
				maxOwn = fe.Core.Index()
			}
		}
	}
	for _, fe := range bestFrame.Events {
		if fe.Core.Creator() == a.pubHex && fe.Core.Index() > maxOwn {
			maxOwn = fe.Core.Index()
		}
	}
	if maxOwn < a.core().Seq() {
		if probe {
			c.stats.probe("reff-skipped-own-events-above-frame")
		}
		return false
	}
	return true
}

func (c *Cluster) opReFastForward(s *Step) {
	a := c.nodeAt(s.A)
	if !c.canReFastForward(a, true) {
		return
	}
	// pending pool content would be lost for the ledger's purposes only if the node drops it; it does not
	c.stats.probe("re-fast-forward")
	a.blocksBeforeFF = a.node.GetLastBlockIndex()
	a.node.SimTransition(_state.CatchingUp)
	want := a.expectedAnchor
	err := a.node.SimFastForward()
	if err == nil && a.running() && !c.hostileSeen && c.cfg.Byz == 0 {
		// every reachable babbling peer answered; the node takes the highest anchor
		if got := a.node.GetLastBlockIndex(); got != want {
			c.violate("C02", "consecutive", "last-block-is-not-the-anchor-after-reset", "node %d reset itself from the anchor block %d (it had blocks up to %d) but reports last block index %d: the blocks it delivers from now on do not follow the anchor", a.idx, want, a.blocksBeforeFF, got)
		}
	}
	c.onFastForwardDone(a, err)
}

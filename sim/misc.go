package sim

import (
	_state "github.com/mosaicnetworks/babble/src/node/state"
)

// opRejoin: a persistent node that left the network earlier is restarted with
// bootstrap (it is no longer in its own peer list, hence Joining) and asks to
// be let in again.
func (c *Cluster) opRejoin(s *Step) {
	a := c.nodeAt(s.A)
	if a == nil || !a.left || a.storeKind != "badger" || a.ffDone {
		return
	}
	if a.task != nil && !a.task.done {
		return
	}
	if a.running() && a.state() != _state.Shutdown {
		return
	}
	if a.peersAtLeave != nil {
		a.configuredPeers = a.peersAtLeave
	}
	delete(c.byPath, a.dbPath)
	prevEpoch := a.epoch
	a.epoch++
	a.left = false
	a.leaving = false
	c.newSegment(a, -1)
	if err := c.startNode(a, true); err != nil {
		c.violate("C11", "restart", "bootstrap-error", "node %d: restart with bootstrap (rejoin) failed: %v", a.idx, err)
		a.dead = true
		a.node = nil
		return
	}
	delete(c.dag.harvest, a.idx)
	c.stats.probe("rejoin-restart")
	c.checkRecovery(a, a, prevEpoch, a.knownAtCrash, nil)
	c.startJoin(a, c.nodeAt(s.B))
}

// fairSuffix: after the generated prefix all faults stop; the live validators
// exchange syncs fairly. Used by every profile that ends with liveness or
// end-state checks.
func (c *Cluster) fairSuffix(spec *runSpec) {
	c.fairMode = true
	c.exec(&Step{Op: "heal"})
	for _, n := range c.nodes {
		if n.running() {
			c.exec(&Step{Op: "synclimit", A: n.idx, N: c.cfg.SyncLimit})
		}
	}
	bound := c.fairBound()
	c.fairCyclesUsed = -1
	for i := 0; i < bound; i++ {
		c.exec(&Step{Op: "fair"})
		if c.stopNow(spec) {
			return
		}
		if c.quiescent() {
			c.fairCyclesUsed = i + 1
			break
		}
	}
	c.stats.probeMax("fair-cycles-max", c.fairCyclesUsed)
}

func (c *Cluster) fairBound() int { return 60 }

// quiescent: no live babbling node is busy and no task is pending.
func (c *Cluster) quiescent() bool {
	if !c.allIdle() {
		return false
	}
	for _, t := range c.tasks {
		if !t.done {
			return false
		}
	}
	for _, n := range c.nodes {
		if n.running() && (n.state() == _state.Joining || n.state() == _state.CatchingUp) {
			return false
		}
	}
	return true
}

func (c *Cluster) genByz(g *genState) *Step { return nil }

func (c *Cluster) opByz(s *Step) {
	if c.byzHandler != nil {
		c.byzHandler(s)
	}
}

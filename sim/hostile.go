package sim

import (
	"crypto/sha256"
	"encoding/json"
	"fmt"
	"sort"
	"strings"

	"github.com/mosaicnetworks/babble/src/crypto/keys"
	hg "github.com/mosaicnetworks/babble/src/hashgraph"
	"github.com/mosaicnetworks/babble/src/peers"
)

/*******************************************************************************
State digest: "leaves the node untouched" = equal digests.
*******************************************************************************/

type digestParts struct {
	dag    string // known map + per-creator listings + undetermined + rounds' fame + last consensus round
	blocks string // stored blocks (body + signatures), anchor
	sets   string // all validator sets
	core   string // head/seq, pools, node state
	app    string // application log length and state
}

func (d digestParts) all() string {
	return d.dag + "|" + d.blocks + "|" + d.sets + "|" + d.core + "|" + d.app
}

func hashStr(parts ...string) string {
	h := sha256.New()
	for _, p := range parts {
		h.Write([]byte(p))
		h.Write([]byte{0})
	}
	return fmt.Sprintf("%x", h.Sum(nil)[:10])
}

func (c *Cluster) digest(n *SimNode) digestParts {
	core := n.core()
	h := core.Hashgraph()
	store := h.Store
	var sb strings.Builder
	known := store.KnownEvents()
	ids := make([]uint32, 0, len(known))
	for id := range known {
		ids = append(ids, id)
	}
	sort.Slice(ids, func(i, j int) bool { return ids[i] < ids[j] })
	rep := store.RepertoireByID()
	for _, id := range ids {
		fmt.Fprintf(&sb, "%d=%d[", id, known[id])
		if p, ok := rep[id]; ok {
			if evs, err := store.ParticipantEvents(p.PubKeyString(), -1); err == nil {
				for _, e := range evs {
					sb.WriteString(e[:10])
					sb.WriteString(",")
				}
			} else if last, err := store.LastEventFrom(p.PubKeyString()); err == nil {
				sb.WriteString("last:" + last)
			}
		}
		sb.WriteString("]")
	}
	fmt.Fprintf(&sb, "|und:%s", hashStr(h.UndeterminedEvents...))
	lcr := -1
	if h.LastConsensusRound != nil {
		lcr = *h.LastConsensusRound
	}
	fmt.Fprintf(&sb, "|lcr:%d|lr:%d|pl:%d|topo:%d", lcr, store.LastRound(), h.PendingLoadedEvents, h.SimTopologicalCounter())
	for r := 0; r <= store.LastRound(); r++ {
		ri, err := store.GetRound(r)
		if err != nil {
			continue
		}
		ws := ri.Witnesses()
		sort.Strings(ws)
		fmt.Fprintf(&sb, "|r%d:%d:%d:", r, len(ri.CreatedEvents), len(ri.ReceivedEvents))
		for _, w := range ws {
			_, _, f := ri.SimFame(w)
			fmt.Fprintf(&sb, "%s%d", w[2:6], f)
		}
	}
	dag := hashStr(sb.String())

	sb.Reset()
	for i := 0; i <= store.LastBlockIndex(); i++ {
		b, err := store.GetBlock(i)
		if err != nil {
			continue
		}
		ks := make([]string, 0, len(b.Signatures))
		for k, v := range b.Signatures {
			ks = append(ks, k+"="+v)
		}
		sort.Strings(ks)
		fmt.Fprintf(&sb, "%d:%s:%s;", i, bodyDigest(&b.Body), hashStr(ks...))
	}
	anchor := -1
	if h.AnchorBlock != nil {
		anchor = *h.AnchorBlock
	}
	fmt.Fprintf(&sb, "anchor:%d|lb:%d|pend:%d", anchor, store.LastBlockIndex(), h.PendingSignatures.Len())
	blocks := hashStr(sb.String())

	sb.Reset()
	if all, err := store.GetAllPeerSets(); err == nil {
		rs := []int{}
		for r := range all {
			rs = append(rs, r)
		}
		sort.Ints(rs)
		for _, r := range rs {
			fmt.Fprintf(&sb, "%d:%v;", r, shortList(pubKeysOf(all[r])))
		}
	}
	fmt.Fprintf(&sb, "|rep:%d|lb:%d", len(store.RepertoireByID()), h.SimRoundLowerBound())
	sets := hashStr(sb.String())

	sb.Reset()
	fmt.Fprintf(&sb, "%s:%d:%d:%d:%d:%d|", core.Head(), core.Seq(), core.AcceptedRound(), core.RemovedRound(), core.TargetRound(), n.state())
	for _, tx := range core.TransactionPool() {
		sb.WriteString(hashStr(string(tx)))
	}
	fmt.Fprintf(&sb, "|%d|%d|%v|v%v|p%v", len(core.InternalTransactionPool()), len(core.SelfBlockSignatures()), core.Heads(),
		shortList(pubKeysOf(core.Validators().Peers)), shortList(pubKeysOf(core.Peers().Peers)))
	cs := hashStr(sb.String())

	app := fmt.Sprintf("%d:%x:%d", len(n.app.log), n.app.state, n.app.restores)
	return digestParts{dag: dag, blocks: blocks, sets: sets, core: cs, app: app}
}

func (d digestParts) diff(o digestParts) string {
	out := []string{}
	if d.dag != o.dag {
		out = append(out, "hashgraph/consensus state")
	}
	if d.blocks != o.blocks {
		out = append(out, "stored blocks/anchor")
	}
	if d.sets != o.sets {
		out = append(out, "validator sets")
	}
	if d.core != o.core {
		out = append(out, "head/pools/state")
	}
	if d.app != o.app {
		out = append(out, "application")
	}
	return strings.Join(out, ", ")
}

/*******************************************************************************
Byzantine event forger (C07, C09)
*******************************************************************************/

// forgedEvent describes one crafted event and what the admission spec says.
type forgedEvent struct {
	ev         *hg.Event
	op         string // tampering operator
	admissible bool
	why        string
	decorated  bool // carries valid membership requests as payload
}

// signEvent signs ev's body with key k.
func signEvent(ev *hg.Event, n *SimNode) {
	hash, _ := ev.Body.Hash()
	r, s, _ := detSign(n.key, hash)
	ev.Signature = keys.EncodeSignature(r, s)
}

func newEvent(creator *SimNode, index int, sp, op string, txs [][]byte, itxs []hg.InternalTransaction, sigs []hg.BlockSignature, ts int64) *hg.Event {
	return &hg.Event{Body: hg.EventBody{
		Transactions:         txs,
		InternalTransactions: itxs,
		Parents:              []string{sp, op},
		Creator:              creator.pubB,
		Index:                index,
		BlockSignatures:      sigs,
		Timestamp:            ts,
	}}
}

// lastOf returns (hash, index) of the creator's latest event at the victim.
func lastOf(victim *SimNode, creator *SimNode) (string, int) {
	store := victim.core().Hashgraph().Store
	last, err := store.LastEventFrom(creator.pubHex)
	if err != nil || last == "" {
		return "", -1
	}
	ev, err := store.GetEvent(last)
	if err != nil {
		// evicted from the victim's cache (still the creator's latest event in
		// its index): the harness's own record of the DAG knows its height
		if de := victim.c.dag.events[last]; de != nil {
			return last, de.Index
		}
		return "", -1
	}
	return last, ev.Index()
}

// someEventAt returns the hash of some event present in the victim's store.
func (c *Cluster) someEventAt(victim *SimNode, r *RNG) string {
	store := victim.core().Hashgraph().Store
	cands := []string{}
	for _, n := range c.nodes {
		if last, err := store.LastEventFrom(n.pubHex); err == nil && last != "" {
			cands = append(cands, last)
		}
	}
	if len(cands) == 0 {
		return ""
	}
	return cands[r.Intn(len(cands))]
}

// forge builds one event according to a tampering operator drawn from r. The
// admission verdict is computed from the text of C07, not from the code.
func (c *Cluster) forge(victim, byz *SimNode, r *RNG, opName string) *forgedEvent {
	sp, spIdx := lastOf(victim, byz)
	other := c.someEventAt(victim, r)
	ts := int64(946684800 + c.stepNo)
	tx := [][]byte{[]byte(fmt.Sprintf("byz-%d-%d", c.stepNo, r.Intn(1000)))}
	f := &forgedEvent{op: opName}
	// Inadmissible events may carry perfectly valid payload (a membership request
	// correctly signed by the peer it concerns, copied from public traffic or made
	// up): it must not make the event any more acceptable.
	var itxs []hg.InternalTransaction
	if opName != "valid" && opName != "valid-no-other-parent" && !strings.HasPrefix(opName, "itx-") && r.Bool(0.4) {
		sk := deriveKey(c.seed, 700+r.Intn(50))
		itx := hg.NewInternalTransactionJoin(*newPeerFromKey(sk))
		itx.Sign(sk)
		itxs = append(itxs, itx)
		if r.Bool(0.3) {
			l := hg.NewInternalTransactionLeave(*byz.peer())
			l.Sign(byz.key)
			itxs = append(itxs, l)
		}
		f.decorated = true
	}
	mk := func(creator *SimNode, idx int, sp, op string) *hg.Event {
		ev := newEvent(creator, idx, sp, op, tx, itxs, nil, ts)
		signEvent(ev, creator)
		return ev
	}
	switch opName {
	case "valid":
		f.ev = mk(byz, spIdx+1, sp, other)
		f.admissible = true
	case "valid-no-other-parent":
		f.ev = mk(byz, spIdx+1, sp, "")
		f.admissible = true
	case "bad-signature":
		f.ev = mk(byz, spIdx+1, sp, other)
		f.ev.Body.Timestamp++ // body altered after signing
		f.why = "signature does not match the body"
	case "signed-by-other-key":
		f.ev = newEvent(byz, spIdx+1, sp, other, tx, itxs, nil, ts)
		stranger := &SimNode{key: deriveKey(c.seed, 900+r.Intn(50))}
		signEvent(f.ev, stranger)
		f.why = "signed by a key that is not the stated creator's"
	case "index-same-as-parent":
		if spIdx < 0 {
			return nil
		}
		f.ev = mk(byz, spIdx, sp, other)
		f.why = "index equals the self-parent's index"
	case "index-skipped":
		f.ev = mk(byz, spIdx+2+r.Intn(3), sp, other)
		f.why = "index skips ahead of self-parent's index + 1"
	case "index-lower":
		if spIdx < 1 {
			return nil
		}
		f.ev = mk(byz, spIdx-1, sp, other)
		f.why = "index below the self-parent's index"
	case "index-negative":
		f.ev = mk(byz, -1-r.Intn(5), sp, other)
		f.why = "negative index"
	case "first-event-nonzero-index":
		if spIdx >= 0 {
			return nil
		}
		f.ev = mk(byz, 1+r.Intn(3), "", other)
		f.why = "first event with non-zero index"
	case "equivocation":
		// second event on top of an older self-parent (fork)
		if spIdx < 1 {
			return nil
		}
		store := victim.core().Hashgraph().Store
		older, err := store.ParticipantEvent(byz.pubHex, spIdx-1)
		if err != nil {
			return nil
		}
		f.ev = mk(byz, spIdx, older, other)
		f.why = "self-parent is not the creator's latest event (fork)"
	case "unknown-self-parent":
		f.ev = mk(byz, spIdx+1, "0X"+strings.Repeat("AB", 32), other)
		f.why = "unknown self-parent"
	case "unknown-other-parent":
		f.ev = mk(byz, spIdx+1, sp, "0X"+strings.Repeat("CD", 32))
		f.why = "unknown other-parent"
	case "no-self-parent-but-has-events":
		if spIdx < 0 {
			return nil
		}
		f.ev = mk(byz, 0, "", other)
		f.why = "claims to be a first event although the creator already has events"
	case "no-self-parent-huge-index":
		if spIdx < 0 {
			return nil
		}
		f.ev = mk(byz, 1<<30+r.Intn(1000), "", other)
		f.why = "no self-parent although the creator already has events, with an index far beyond anything the creator will ever reach"
	case "foreign-creator":
		stranger := &SimNode{key: deriveKey(c.seed, 800+r.Intn(50))}
		stranger.pubB = keys.FromPublicKey(&stranger.key.PublicKey)
		stranger.pubHex = keys.PublicKeyHex(&stranger.key.PublicKey)
		f.ev = mk(stranger, 0, "", other)
		f.why = "creator is not a known participant"
	case "impersonate-honest":
		// an event claiming an honest creator, signed by the Byzantine key
		var h *SimNode
		for _, n := range c.nodes {
			if n != byz && n.running() {
				h = n
				break
			}
		}
		if h == nil {
			return nil
		}
		hsp, hidx := lastOf(victim, h)
		f.ev = newEvent(h, hidx+1, hsp, other, tx, itxs, nil, ts)
		signEvent(f.ev, byz)
		f.why = "claims another creator, signed by the forger"
	case "itx-signed-by-other":
		// membership request about some peer, signed by the forger instead of that peer
		var target *SimNode
		for _, n := range c.nodes {
			if n != byz {
				target = n
				break
			}
		}
		if target == nil {
			return nil
		}
		itx := hg.NewInternalTransaction(hg.PEER_REMOVE, *target.peer())
		itx.Sign(byz.key)
		f.ev = newEvent(byz, spIdx+1, sp, other, nil, []hg.InternalTransaction{itx}, nil, ts)
		signEvent(f.ev, byz)
		f.why = "membership request not signed by the peer it concerns"
	case "itx-self-signed-valid":
		itx := hg.NewInternalTransaction(hg.PEER_REMOVE, *byz.peer())
		itx.Sign(byz.key)
		f.ev = newEvent(byz, spIdx+1, sp, other, nil, []hg.InternalTransaction{itx}, nil, ts)
		signEvent(f.ev, byz)
		f.admissible = true
	default:
		return nil
	}
	return f
}

var forgeOps = []string{"valid", "valid-no-other-parent", "bad-signature", "signed-by-other-key", "index-same-as-parent",
	"index-skipped", "index-lower", "index-negative", "first-event-nonzero-index", "equivocation", "unknown-self-parent",
	"unknown-other-parent", "no-self-parent-but-has-events", "foreign-creator", "impersonate-honest", "itx-signed-by-other",
	"itx-self-signed-valid", "no-self-parent-huge-index"}

// listingInvariant: per creator the participant listing is gap-free, each
// listed event's index equals its height, no two events at one height.
func (c *Cluster) listingInvariant(victim *SimNode) string {
	store := victim.core().Hashgraph().Store
	for _, p := range store.RepertoireByID() {
		evs, err := store.ParticipantEvents(p.PubKeyString(), -1)
		if err != nil {
			continue
		}
		known := store.KnownEvents()[p.ID()]
		if len(evs) > 0 && known != len(evs)-1 && !victim.ffDone {
			return fmt.Sprintf("creator %s: known index %d but %d listed events", short(p.PubKeyString()), known, len(evs))
		}
		for h, e := range evs {
			ev, err := store.GetEvent(e)
			if err != nil {
				if de := c.dag.events[e]; de != nil && victim.storeKind == "inmem" && victim.cacheSize < 1000 {
					// evicted from a small in-memory cache: the listing itself is what
					// is checked here, against the harness's record of the event
					if !victim.ffDone && de.Index != h {
						return fmt.Sprintf("creator %s: event at height %d has index %d", short(p.PubKeyString()), h, de.Index)
					}
					if de.Creator != p.PubKeyString() {
						return fmt.Sprintf("creator %s: listing contains an event of %s", short(p.PubKeyString()), short(de.Creator))
					}
					continue
				}
				return fmt.Sprintf("creator %s: listed event %s at height %d is not in the store", short(p.PubKeyString()), short(e), h)
			}
			if !victim.ffDone && ev.Index() != h {
				return fmt.Sprintf("creator %s: event at height %d has index %d", short(p.PubKeyString()), h, ev.Index())
			}
			if ev.Creator() != p.PubKeyString() {
				return fmt.Sprintf("creator %s: listing contains an event of %s", short(p.PubKeyString()), short(ev.Creator()))
			}
		}
	}
	return ""
}

// toWireFor converts a forged full event into the wire form as the victim
// would resolve it (parents by creator id + index). Returns false when the
// event cannot be expressed on the wire (unknown parents).
func (c *Cluster) toWireFor(victim *SimNode, ev *hg.Event) (hg.WireEvent, bool) {
	store := victim.core().Hashgraph().Store
	we := hg.WireEvent{Signature: ev.Signature}
	we.Body.Transactions = ev.Body.Transactions
	we.Body.InternalTransactions = ev.Body.InternalTransactions
	we.Body.Index = ev.Body.Index
	we.Body.Timestamp = ev.Body.Timestamp
	we.Body.CreatorID = keys.PublicKeyID(ev.Body.Creator)
	we.Body.SelfParentIndex = -1
	we.Body.OtherParentIndex = -1
	for _, bs := range ev.Body.BlockSignatures {
		we.Body.BlockSignatures = append(we.Body.BlockSignatures, bs.ToWire())
	}
	if sp := ev.SelfParent(); sp != "" {
		pe, err := store.GetEvent(sp)
		if err == nil {
			we.Body.SelfParentIndex = pe.Index()
		} else if de := c.dag.events[sp]; de != nil && de.Creator == ev.Creator() {
			// (evicted from the victim's cache; the sender knows its own chain)
			we.Body.SelfParentIndex = de.Index
		} else {
			return we, false
		}
	}
	if op := ev.OtherParent(); op != "" {
		pe, err := store.GetEvent(op)
		if err != nil {
			return we, false
		}
		we.Body.OtherParentIndex = pe.Index()
		we.Body.OtherParentCreatorID = keys.PublicKeyID(pe.Body.Creator)
	}
	return we, true
}

func cloneJSON(src, dst interface{}) {
	raw, err := json.Marshal(src)
	if err != nil {
		panic(harnessError{"cloneJSON: " + err.Error()})
	}
	if err := json.Unmarshal(raw, dst); err != nil {
		panic(harnessError{"cloneJSON: " + err.Error()})
	}
}

var _ = peers.NewPeer

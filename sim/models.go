package sim

import (
	"crypto/sha256"
	"encoding/binary"
	"fmt"
	"hash"
	"os"
	"sort"

	hg "github.com/mosaicnetworks/babble/src/hashgraph"
)

/*******************************************************************************
Global DAG record: every event ever observed in any node's store. Events are
self-certifying (hash over body) so the record does not depend on any node's
bookkeeping.
*******************************************************************************/

type DagEvent struct {
	Hash      string
	Creator   string // upper-case pub key hex
	Index     int
	SelfP     string
	OtherP    string
	Body      hg.EventBody
	Signature string
	Timestamp int64
	FirstStep int
	FirstNode int
	Seq       int // order of first observation (a topological order of the union DAG)
}

type DagRecord struct {
	events  map[string]*DagEvent
	order   []*DagEvent
	byCI    map[string]map[int]string // creator -> index -> hash
	forks   []string
	harvest map[int]map[uint32]int    // node idx -> creator id -> harvested up to index
	anc     map[string]map[string]int // lazily computed: event -> creator -> highest ancestor index
}

func newDagRecord() *DagRecord {
	return &DagRecord{events: map[string]*DagEvent{}, byCI: map[string]map[int]string{}, harvest: map[int]map[uint32]int{}, anc: map[string]map[string]int{}}
}

func (d *DagRecord) add(ev *hg.Event, step, nodeIdx int) *DagEvent {
	h := ev.Hex()
	if e, ok := d.events[h]; ok {
		return e
	}
	body := ev.Body
	de := &DagEvent{
		Hash: h, Creator: ev.Creator(), Index: ev.Index(), SelfP: ev.SelfParent(), OtherP: ev.OtherParent(),
		Body: body, Signature: ev.Signature, Timestamp: ev.Timestamp(), FirstStep: step, FirstNode: nodeIdx, Seq: len(d.order),
	}
	d.events[h] = de
	d.order = append(d.order, de)
	m := d.byCI[de.Creator]
	if m == nil {
		m = map[int]string{}
		d.byCI[de.Creator] = m
	}
	if other, ok := m[de.Index]; ok && other != h {
		d.forks = append(d.forks, fmt.Sprintf("creator %s index %d: %s and %s", short(de.Creator), de.Index, short(other), short(h)))
	} else {
		m[de.Index] = h
	}
	return de
}

func short(s string) string {
	if len(s) > 12 {
		return s[:12]
	}
	return s
}

// harvestNode pulls the events that appeared in a node's store since the last
// harvest into the record.
func (c *Cluster) harvestNode(n *SimNode) {
	if !n.running() {
		return
	}
	d := c.dag
	hv := d.harvest[n.idx]
	if hv == nil {
		hv = map[uint32]int{}
		d.harvest[n.idx] = hv
	}
	store := n.core().Hashgraph().Store
	known := store.KnownEvents()
	rep := store.RepertoireByID()
	ids := make([]uint32, 0, len(known))
	for id := range known {
		ids = append(ids, id)
	}
	sort.Slice(ids, func(i, j int) bool { return ids[i] < ids[j] })
	for _, id := range ids {
		last := known[id]
		from, seen := hv[id]
		if !seen {
			from = -1
		}
		if last <= from {
			continue
		}
		p, ok := rep[id]
		if !ok {
			continue
		}
		for i := from + 1; i <= last; i++ {
			h, err := store.ParticipantEvent(p.PubKeyString(), i)
			if err != nil {
				continue
			}
			ev, err := store.GetEvent(h)
			if err != nil {
				continue
			}
			isNew := d.events[h] == nil
			de := d.add(ev, c.stepNo, n.idx)
			if isNew {
				if debugTrace {
					cr, sp, op := c.byPub[de.Creator], c.dag.events[de.SelfP], c.dag.events[de.OtherP]
					d := func(e *DagEvent) string {
						if e == nil {
							return "-"
						}
						return fmt.Sprintf("n%d#%d", c.byPub[e.Creator].idx, e.Index)
					}
					fmt.Fprintf(os.Stderr, "step %d: new event n%d#%d sp=%s op=%s txs=%d itxs=%d sigs=%d (first seen at n%d)\n", c.stepNo, cr.idx, de.Index, d(sp), d(op), len(de.Body.Transactions), len(de.Body.InternalTransactions), len(de.Body.BlockSignatures), n.idx)
				}
				c.stats.EventsCreated++
				if owner := c.byPub[de.Creator]; owner != nil {
					owner.createdCount++
				}
			}
			n.completedEvents[h] = true
		}
		hv[id] = last
	}
}

func (c *Cluster) harvestAll() {
	for _, n := range c.nodes {
		c.harvestNode(n)
	}
}

// ancestors returns, for event h, the highest ancestor index per creator
// (plain graph closure over the record; -1 entries omitted).
func (d *DagRecord) ancestors(h string) map[string]int {
	if h == "" {
		return nil
	}
	if a, ok := d.anc[h]; ok {
		return a
	}
	e := d.events[h]
	if e == nil {
		return nil
	}
	res := map[string]int{}
	for _, p := range []string{e.SelfP, e.OtherP} {
		for k, v := range d.ancestors(p) {
			if cur, ok := res[k]; !ok || v > cur {
				res[k] = v
			}
		}
	}
	if cur, ok := res[e.Creator]; !ok || e.Index > cur {
		res[e.Creator] = e.Index
	}
	d.anc[h] = res
	return res
}

// isAncestor reports whether a is an ancestor of (or equal to) b in the record.
func (d *DagRecord) isAncestor(a, b string) bool {
	ea := d.events[a]
	if ea == nil {
		return false
	}
	anc := d.ancestors(b)
	v, ok := anc[ea.Creator]
	if !ok || v < ea.Index {
		return false
	}
	// fork-free record: creator+index identifies the event
	return d.byCI[ea.Creator][ea.Index] == a
}

/*******************************************************************************
Submission ledger
*******************************************************************************/

type Submission struct {
	Tx    []byte
	Node  int
	Epoch int
	Step  int
	Lost  bool // written off: still pending in a node that was killed
}

type Ledger struct {
	subs      []*Submission
	submitted map[string]int // content -> count
	committed map[string]int // content -> count in canonical chain
	joinReqs  map[string]int // pubkey -> step of accepted join request
}

func newLedger() *Ledger {
	return &Ledger{submitted: map[string]int{}, committed: map[string]int{}, joinReqs: map[string]int{}}
}

func (l *Ledger) submit(tx []byte, node, epoch, step int) {
	cp := make([]byte, len(tx))
	copy(cp, tx)
	l.subs = append(l.subs, &Submission{Tx: cp, Node: node, Epoch: epoch, Step: step})
	l.submitted[string(tx)]++
}

/*******************************************************************************
Stats and probes
*******************************************************************************/

type Stats struct {
	Steps           int            `json:"steps"`
	RPCs            int            `json:"rpcs"`
	EventsCreated   int            `json:"events_created"`
	BlocksDelivered int            `json:"blocks_delivered"`
	SimMillis       int64          `json:"sim_ms"`
	Faults          map[string]int `json:"faults"`
	Probes          map[string]int `json:"probes"`
	Ops             map[string]int `json:"ops"`
}

func newStats() *Stats {
	return &Stats{Faults: map[string]int{}, Probes: map[string]int{}, Ops: map[string]int{}}
}

func (s *Stats) fault(k string) { s.Faults[k]++ }
func (s *Stats) probe(k string) { s.Probes[k]++ }
func (s *Stats) probeMax(k string, v int) {
	if v > s.Probes[k] {
		s.Probes[k] = v
	}
}

/*******************************************************************************
Trace hash: rolling hash over the observable state after every step.
*******************************************************************************/

type traceHasher struct {
	h    hash.Hash
	last string
	n    int
	per  []string
}

func newTraceHasher() *traceHasher { return &traceHasher{h: sha256.New()} }

func (t *traceHasher) add(s string) {
	t.h.Write([]byte(s))
	t.h.Write([]byte{0})
}

func (t *traceHasher) sum() string { return fmt.Sprintf("%x", t.h.Sum(nil)[:12]) }

func (c *Cluster) traceStep() {
	t := c.trace
	var b [8]byte
	binary.BigEndian.PutUint64(b[:], uint64(c.stepNo))
	t.h.Write(b[:])
	for _, n := range c.nodes {
		if !n.running() {
			t.add(fmt.Sprintf("n%d:down", n.idx))
			continue
		}
		core := n.core()
		h := core.Hashgraph()
		known := core.KnownEvents()
		ids := make([]uint32, 0, len(known))
		for id := range known {
			ids = append(ids, id)
		}
		sort.Slice(ids, func(i, j int) bool { return ids[i] < ids[j] })
		s := fmt.Sprintf("n%d:st%d:", n.idx, n.state())
		for _, id := range ids {
			s += fmt.Sprintf("%d=%d,", id, known[id])
		}
		lcr := -1
		if h.LastConsensusRound != nil {
			lcr = *h.LastConsensusRound
		}
		lb := h.Store.LastBlockIndex()
		bh := ""
		if lb >= 0 {
			if blk, err := h.Store.GetBlock(lb); err == nil {
				bh = bodyDigest(&blk.Body)
				bh += fmt.Sprintf("/%d", len(blk.Signatures))
			}
		}
		s += fmt.Sprintf("|lcr%d|lb%d:%s|und%d|tp%d|ip%d|sp%d|ps%d|hd%s:%d", lcr, lb, bh, len(h.UndeterminedEvents),
			len(core.TransactionPool()), len(core.InternalTransactionPool()), len(core.SelfBlockSignatures()),
			h.PendingSignatures.Len(), short(core.Head()), core.Seq())
		t.add(s)
	}
	t.n++
	if c.cfg.TracePerStep {
		t.per = append(t.per, t.sum())
	}
}

var debugTrace = os.Getenv("SIM_TRACE") != ""

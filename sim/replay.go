package sim

import (
	"encoding/json"
	"os"
	"testing"
	"time"
)

// ReplayFile is a violation with everything needed to reproduce it.
type ReplayFile struct {
	Property      string     `json:"property"`
	Oracle        string     `json:"oracle"`
	Key           string     `json:"key"`
	Message       string     `json:"message"`
	Seed          uint64     `json:"seed"`
	Config        *RunConfig `json:"config"`
	Steps         []*Step    `json:"steps"`
	FiredAtStep   int        `json:"fired_at_step"`
	TraceHash     string     `json:"trace_hash"`
	MinimisedFrom int        `json:"minimised_from,omitempty"`
	Go            string     `json:"go,omitempty"`
	RepoTree      string     `json:"repo_tree,omitempty"`
	Exact         bool       `json:"replay_exact"`
}

func loadReplay(path string) (*ReplayFile, error) {
	raw, err := os.ReadFile(path)
	if err != nil {
		return nil, err
	}
	var rf ReplayFile
	if err := json.Unmarshal(raw, &rf); err != nil {
		return nil, err
	}
	return &rf, nil
}

func sameViolation(res *RunResult, rf *ReplayFile) *Violation {
	for _, v := range res.Violations {
		if v.Property == rf.Property && v.Oracle == rf.Oracle && v.Key == rf.Key {
			return v
		}
	}
	return nil
}

// minimise shrinks the step list of a failing run (ddmin over chunks, then
// single steps), accepting a candidate only if the same oracle fires with the
// same class key.
func minimise(t *testing.T, rf *ReplayFile, budgetSec float64) *ReplayFile {
	deadline := time.Now().Add(time.Duration(budgetSec * float64(time.Second)))
	steps := rf.Steps
	orig := len(steps)
	try := func(cand []*Step) *Violation {
		res := runOne(t, &runSpec{Property: rf.Property, Seed: rf.Seed, Config: rf.Config, Steps: cand,
			StopAt: &Violation{Property: rf.Property, Oracle: rf.Oracle, Key: rf.Key}})
		if res.Error != "" {
			return nil
		}
		return sameViolation(res, rf)
	}
	// cut everything after the firing step first
	if rf.FiredAtStep > 0 && rf.FiredAtStep < len(steps) {
		if v := try(steps[:rf.FiredAtStep]); v != nil {
			steps = steps[:rf.FiredAtStep]
		}
	}
	chunk := len(steps) / 2
	tries := 0
	for chunk >= 1 && time.Now().Before(deadline) && tries < 400 {
		removed := false
		for start := 0; start+chunk <= len(steps) && time.Now().Before(deadline) && tries < 400; {
			cand := append(append([]*Step{}, steps[:start]...), steps[start+chunk:]...)
			tries++
			if v := try(cand); v != nil {
				steps = cand
				removed = true
			} else {
				start += chunk
			}
		}
		if !removed || chunk == 1 {
			chunk /= 2
		}
	}
	// parameter simplification: drop leg faults where the failure persists
	for i := 0; i < len(steps) && time.Now().Before(deadline) && tries < 500; i++ {
		s := steps[i]
		if s.Op == "tick" && (s.Pull != "" || s.Push != "") {
			cp := *s
			cp.Pull, cp.Push, cp.Late = "", "", 0
			cand := append([]*Step{}, steps...)
			cand[i] = &cp
			tries++
			if v := try(cand); v != nil {
				steps = cand
			}
		}
	}
	out := *rf
	out.Steps = steps
	out.MinimisedFrom = orig
	res := runOne(t, &runSpec{Property: rf.Property, Seed: rf.Seed, Config: rf.Config, Steps: steps, TracePer: false,
		StopAt: &Violation{Property: rf.Property, Oracle: rf.Oracle, Key: rf.Key}})
	if v := sameViolation(res, rf); v != nil {
		out.Message = v.Message
		out.FiredAtStep = v.Step
		out.TraceHash = res.TraceHash
	}
	return &out
}

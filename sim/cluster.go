package sim

import (
	"crypto/ecdsa"
	"crypto/sha256"
	"encoding/binary"
	"fmt"
	"github.com/mosaicnetworks/babble/src/babble"
	"github.com/mosaicnetworks/babble/src/proxy"
	"github.com/mosaicnetworks/babble/src/proxy/inmem"
	"io"
	"math/big"
	"os"
	"path/filepath"
	"sort"
	"strings"
	"testing"
	"testing/synctest"
	"time"

	"github.com/btcsuite/btcd/btcec"
	"github.com/mosaicnetworks/babble/src/config"
	"github.com/mosaicnetworks/babble/src/crypto/keys"
	hg "github.com/mosaicnetworks/babble/src/hashgraph"
	"github.com/mosaicnetworks/babble/src/node"
	_state "github.com/mosaicnetworks/babble/src/node/state"
	"github.com/mosaicnetworks/babble/src/peers"
)

// harnessError is panicked when the harness itself (not the code under test)
// is in trouble. It is never reported as a violation (exit code 2).
type harnessError struct{ msg string }

func (h harnessError) Error() string { return "harness: " + h.msg }

// crashSentinel is panicked inside a store hook to simulate a SIGKILL of one
// node: nothing after the crash point executes.
type crashSentinel struct{ n *SimNode }

// Violation is one oracle failure.
type Violation struct {
	Property string `json:"property"`
	Oracle   string `json:"oracle"`
	Key      string `json:"key"` // stable class key (for known-findings matching)
	Message  string `json:"message"`
	Step     int    `json:"step"`
}

// SimNode is one participant (honest node, or the identity used by a
// Byzantine actor).
type SimNode struct {
	idx     int
	key     *ecdsa.PrivateKey
	pubHex  string
	pubB    []byte
	id      uint32
	addr    string
	moniker string

	c              *Cluster
	node           *node.Node
	app            *SimApp
	trans          *SimTransport
	conf           *config.Config
	store          hg.Store
	expectedAnchor int    // re-fast-forward: the highest anchor its reachable peers offer
	spell          string // the node's public key as the peers files spell it ("": babble's own upper-case form)

	storeKind string
	dbPath    string
	cacheSize int
	epoch     int
	started   bool
	crashed   bool // killed, not (yet) restarted
	dead      bool // will never come back (in-memory node killed)
	silent    bool
	byz       bool // identity driven by a Byzantine actor, no real node
	liar      bool
	clockOff  int64 // seconds added to the bubble clock
	clockMode int   // 0 honest(+offset), 1 constant, 2 alternating extreme, 3 random extreme

	configuredPeers []*peers.Peer // what the operator put into peers.json
	genesisPeers    []*peers.Peer
	fastSync        bool
	joinedLate      bool
	ffDone          bool // has reset itself through fast-forward at least once
	stalled         bool // reported an insertion error after fast-forward (C13 guard)
	leaving         bool
	blocksBeforeFF  int // last block index before the fast-forward in progress
	viaProxy        bool
	inproxy         *inmem.InmemProxy
	txBuf           []byte // the application's submission buffer (reused)
	armEventRun     int
	eventRun        int
	left            bool

	// bookkeeping for oracles
	deliveredFrom   map[int]int               // epoch -> first index delivered
	lastSigs        map[int]map[string]string // block index -> signatures seen at previous check
	acceptedTxs     [][]byte                  // transactions accepted by this incarnation
	createdCount    int
	queuedWitnesses map[int]int
	clockTicks      int
	lastAnchor      int
	anchorEpoch     int
	completedEvents map[string]bool // hashes whose InsertEvent had returned (store observed at step ends)
	writtenEvents   map[string]bool // hashes whose event transaction committed (H8)
	storePoints     int
	armCrashAt      int  // crash at this store point number (0 = not armed)
	armBlockPre     bool // directed kill: at the next block record this node is about to write
	armTorn         float64
	task            *task
	cur             *logCursor
	preVlog         int64
	vlogAtOpen      int64
	wipeExpected    bool
	wiped           bool
	crashImage      string
	lostTxs         [][]byte
	knownAtCrash    map[uint32]int
	lastKnown       map[uint32]int
	peersAtLeave    []*peers.Peer
	constructing    bool
	isObserver      bool
	quorumChecked   map[string]bool
	fameChecked     map[string]bool
	roundChecked    map[int]bool
	lagCounted      map[int]bool
	explicitSuspend bool
	// maintenance-mode session (C17): the next start of this node uses
	// conf.MaintenanceMode / a store in maintenance mode; while the session lasts
	// the node has no transport (nobody reaches it through the network)
	// the node's database refused at least one write (injected transient error)
	storeErrSeen bool
	maintNext    bool
	// exchanges initiated during the fair suffix: succeeded / failed
	fairOK, fairFail int
	fairLastErr      string
	wire             *wireEnd
	maintenance      bool
	ownScanned       int
	ownPayload       map[string]int
	sigChecked       map[string]bool
	frameChecked     map[int]bool
}

// running: the node has a live incarnation whose store may be read (a node
// that shut itself down has closed its database).
func (n *SimNode) running() bool {
	return n.started && !n.crashed && !n.dead && !n.byz && n.node != nil && n.node.GetState() != _state.Shutdown
}

func (n *SimNode) state() _state.State { return n.node.GetState() }

func (n *SimNode) core() node.SimCore { return n.node.SimCore() }

func (n *SimNode) peer() *peers.Peer {
	if n.spell != "" {
		// the key as the peers files of this network spell it (lower case, 0x)
		return peers.NewPeer(n.spell, n.addr, n.moniker)
	}
	return peers.NewPeer(n.pubHex, n.addr, n.moniker)
}

// task is a goroutine running a blocking node operation (join, leave).
type task struct {
	id   int
	kind string
	n    *SimNode
	via  *SimNode
	done bool
	err  error

	gate     chan struct{}
	parked   bool
	aborted  bool
	resumeAt int
	epoch    int
	plan     map[string]int
	// the node inside whose request handler the task is parked (lock gap
	// syncreq.between), and that node's incarnation at that moment
	handlerNode  *SimNode
	handlerEpoch int
}

// Cluster is one simulated network.
type Cluster struct {
	t    *testing.T
	cfg  *RunConfig
	seed uint64

	gen   *RNG // generation stream
	inner *RNG // per-step stream for choices made inside the code under test

	nodes  []*SimNode
	byAddr map[string]*SimNode
	byPub  map[string]*SimNode
	byPath map[string]*SimNode
	// wire mode: real NetworkTransport endpoints by address
	wires      map[string]*wireEnd
	anonWire   *wireEnd
	wirePanics []string

	net *Network

	stepNo    int
	refQueued map[int]bool
	byzLast   *hg.Event // the last valid event the forger created (it never builds on anything else)
	keySeed   uint64    // identities derive their keys from this instead of the run seed (fixed histories)
	nesting   int       // > 0 while a composite step executes its sub-steps
	steps     []*Step
	start     time.Time
	wakeups   []func()
	tasks     []*task

	// models
	chain     map[int]string // canonical chain: index -> digest
	chainBody map[int]*hg.Block
	chainBy   map[int]*SimNode
	dag       *DagRecord
	ledger    *Ledger

	violations []*Violation
	stats      *Stats
	trace      *traceHasher
	workdir    string
	inShadow   bool
	policy     string
	genesisSet []*SimNode
	fairMode   bool
	hostile    bool // a hostile input is being delivered (panics are C08 violations)

	vs                *VSModel
	forksReported     int
	shadowSeq         int
	fairBoundV        int
	capped            bool
	fairCount         int // fair cycles executed
	fairQuiescentAt   int // fair cycle after which the network was first found quiescent (0: never)
	storePointHook    func(n *SimNode, kind, phase string)
	stepHook          func(s *Step)
	blockHook         func(b *hg.Block)
	finalHook         func()
	byzHandler        func(s *Step)
	byzGen            func(g *genState) *Step
	observer          *SimNode
	synthetic         bool
	synthNears        [][2]string
	keptShadows       []*keptShadow
	lateSetChangeSeen bool
	realStart         time.Time
	hostileSeen       bool
	ffAccepted        *ffTriple
	lastForged        *ffTriple
	lastForgedEv      *forgedEvent
	lastForgedVictim  int
	lastForgedEpoch   int
	lastTampered      *ffTriple
	lastTamperedOp    string
	syn               *synthState
	byzLeaveAsked     bool
	synTxn            int
	synPTx            float64 // share of synthetic events that carry payload (0: default)
	synFairFrom       int     // synthetic histories: number of events created before the fair continuation (0: none)
	synFairCycles     int
	refDag            *refDag
	refFame           *refFame
	recordWrites      bool
	recorder          *recStore
	curTask           *task
	taskHarnessErr    *harnessError
	instSeq           int
	emitted           map[string]string
	emitScanned       int
	frameHashes       map[int]frameRef
}

func clonePeers(ps []*peers.Peer) []*peers.Peer {
	out := make([]*peers.Peer, len(ps))
	for i, p := range ps {
		out[i] = peers.NewPeer(p.PubKeyHex, p.NetAddr, p.Moniker)
	}
	return out
}

// deriveKey makes validator key i of a run from the seed.
func deriveKey(seed uint64, i int) *ecdsa.PrivateKey {
	for ctr := 0; ; ctr++ {
		var buf [24]byte
		binary.BigEndian.PutUint64(buf[0:], seed)
		binary.BigEndian.PutUint64(buf[8:], uint64(i))
		binary.BigEndian.PutUint64(buf[16:], uint64(ctr))
		d := sha256.Sum256(append([]byte("babblesim-key"), buf[:]...))
		d[0] &= 0x7f
		k, err := keys.ParsePrivateKey(d[:])
		if err == nil {
			return k
		}
	}
}

// detSign is RFC 6979 deterministic signing through btcec.
func detSign(priv *ecdsa.PrivateKey, hash []byte) (*big.Int, *big.Int, error) {
	sig, err := (*btcec.PrivateKey)(priv).Sign(hash)
	if err != nil {
		return nil, nil, err
	}
	return sig.R, sig.S, nil
}

func newCluster(t *testing.T, cfg *RunConfig, seed uint64) *Cluster {
	c := &Cluster{
		t:           t,
		cfg:         cfg,
		seed:        seed,
		gen:         NewRNG(Mix(seed, 0x67656e)),
		inner:       NewRNG(Mix(seed, 0x696e6e)),
		byAddr:      map[string]*SimNode{},
		byPub:       map[string]*SimNode{},
		byPath:      map[string]*SimNode{},
		wires:       map[string]*wireEnd{},
		chain:       map[int]string{},
		chainBody:   map[int]*hg.Block{},
		chainBy:     map[int]*SimNode{},
		dag:         newDagRecord(),
		ledger:      newLedger(),
		stats:       newStats(),
		trace:       newTraceHasher(),
		emitted:     map[string]string{},
		frameHashes: map[int]frameRef{},
		start:       time.Now(),
		policy:      cfg.Policy,
	}
	c.net = newNetwork(c)
	c.installHooks()
	return c
}

func (c *Cluster) installHooks() {
	keys.SimSigner = detSign
	hg.SimNow = func(creator []byte) int64 {
		n := c.byPub[strings.ToUpper(fmt.Sprintf("0X%X", creator))]
		now := time.Now().Unix()
		if n == nil {
			return now
		}
		return n.clockNow(now)
	}
	hg.SimPermute = func(site string, k int) []int {
		c.stats.probe("permute:" + site)
		return c.inner.Perm(k)
	}
	hg.SimStoreHook = c.storeHook
	hg.SimProbe = func(name string, v int) {
		if c.inShadow {
			return
		}
		switch name {
		case "fame.decided":
			c.stats.probeMax("fame-decision-distance-max", v)
			if v >= 3 {
				c.stats.probe(fmt.Sprintf("fame-decided-at-distance-%d", v))
			}
		case "fame.coin":
			c.stats.probe("coin-round-vote")
			if v == 0 {
				c.stats.probe("coin-round-vote-exact-supermajority")
			}
		}
	}
	node.SimPick = func(cands []uint32) (uint32, bool) {
		if c.net.pickID != 0 {
			for _, x := range cands {
				if x == c.net.pickID {
					return x, true
				}
			}
		}
		if len(cands) == 0 {
			return 0, false
		}
		s := append([]uint32{}, cands...)
		sort.Slice(s, func(i, j int) bool { return s[i] < s[j] })
		return s[c.inner.Intn(len(s))], true
	}
	node.SimDefer = func(wake func()) { c.wakeups = append(c.wakeups, wake) }
	// lock gaps without a transport call (H9): an interleaved gossip may be parked there too
	node.SimYield = func(nd *node.Node, site string) {
		if site == "ff.between" {
			c.ffWindowIntrusion(nd)
			return
		}
		t := c.curTask
		if t == nil || t.kind != "gossip" || t.plan == nil {
			return
		}
		if d := t.plan[site]; d > 0 {
			t.plan[site] = 0
			c.stats.probe("yield-parked:" + site)
			t.handlerNode = nil
			if site == "syncreq.between" {
				for _, hn := range c.nodes {
					if hn.node == nd {
						t.handlerNode, t.handlerEpoch = hn, hn.epoch
					}
				}
			}
			c.park(t, d)
			t.handlerNode = nil
			c.curTask = t
		}
	}
}

func uninstallHooks() {
	keys.SimSigner = nil
	hg.SimNow = nil
	hg.SimPermute = nil
	hg.SimStoreHook = nil
	hg.SimProbe = nil
	node.SimPick = nil
	node.SimDefer = nil
	node.SimYield = nil
}

func (n *SimNode) clockNow(now int64) int64 {
	switch n.clockMode {
	case 1:
		return n.clockOff
	case 2:
		if n.createdCount%2 == 0 {
			return -(1 << 40)
		}
		return 1 << 50
	case 3:
		v := int64(n.c.inner.U64())
		return v
	}
	if n.c.cfg.EventClock {
		// a clock that also ticks with every event the node creates, at a speed
		// of its own: no two events of a node (and few of different nodes) claim
		// the same second, so that medians over witnesses' timestamps actually
		// depend on which witnesses are counted
		n.clockTicks++
		return now + n.clockOff + int64(n.clockTicks)*int64(1+n.idx%3)
	}
	return now + n.clockOff
}

// addIdentity creates a participant identity (no node yet).
func (c *Cluster) addIdentity() *SimNode {
	i := len(c.nodes)
	ks := c.seed
	if c.keySeed != 0 {
		ks = c.keySeed
	}
	k := deriveKey(ks, i)
	n := &SimNode{
		idx:             i,
		key:             k,
		pubHex:          keys.PublicKeyHex(&k.PublicKey),
		pubB:            keys.FromPublicKey(&k.PublicKey),
		addr:            fmt.Sprintf("n%d", i),
		moniker:         fmt.Sprintf("node%d", i),
		c:               c,
		deliveredFrom:   map[int]int{},
		lastSigs:        map[int]map[string]string{},
		completedEvents: map[string]bool{},
		writtenEvents:   map[string]bool{},
		lastAnchor:      -1,
	}
	n.id = keys.PublicKeyID(n.pubB)
	n.viaProxy = Mix(c.seed^0x70726f78, uint64(i))%2 == 0
	c.nodes = append(c.nodes, n)
	c.byAddr[n.addr] = n
	c.byPub[n.pubHex] = n
	return n
}

// startNode (re)creates the real Node of an identity.
func (c *Cluster) startNode(n *SimNode, bootstrap bool) error {
	conf := config.NewDefaultConfig()
	conf.LogLevel = "panic"
	conf.Logger().Logger.Out = io.Discard
	conf.CacheSize = n.cacheSize
	conf.SyncLimit = c.cfg.SyncLimit
	conf.SuspendLimit = c.cfg.SuspendLimit
	conf.JoinTimeout = time.Duration(c.cfg.JoinTimeoutMs) * time.Millisecond
	conf.EnableFastSync = n.fastSync
	conf.Bootstrap = bootstrap
	conf.MaintenanceMode = n.maintNext
	conf.Moniker = n.moniker
	n.conf = conf

	// the store is opened by babble's own Babble.initStore (store kind, backup
	// of an existing database unless bootstrapping, maintenance mode)
	var store hg.Store
	conf.Store = n.storeKind == "badger"
	if conf.Store {
		if n.dbPath == "" {
			n.dbPath = filepath.Join(c.workdir, fmt.Sprintf("db-n%d-e%d", n.idx, n.epoch))
		}
		conf.DatabaseDir = n.dbPath
	}
	eng := babble.NewBabble(conf)
	if err := eng.SimInitStore(); err != nil {
		return fmt.Errorf("Babble.initStore(%s): %v", n.dbPath, err)
	}
	store = eng.Store
	if conf.Store {
		c.byPath[n.dbPath] = n
		_, n.vlogAtOpen = vlogSize(n.dbPath)
	}
	if c.recordWrites && n.idx == 0 && c.recorder == nil {
		c.recorder = &recStore{Store: store}
		store = c.recorder
	}
	n.store = store

	if n.app == nil {
		n.app = newSimApp(c, n)
	}
	n.app.resetState(n.epoch)
	n.trans = newSimTransport(c, n)

	n.constructing = true
	defer func() { n.constructing = false }()
	var app proxy.AppProxy = n.app
	n.inproxy = nil
	if n.viaProxy {
		// the application is attached through babble's real in-process proxy
		n.inproxy = inmem.NewInmemProxy(&simHandler{n.app}, conf.Logger())
		app = n.inproxy
	}
	n.node = node.NewNode(conf,
		node.NewValidator(n.key, n.moniker),
		peers.NewPeerSet(clonePeers(n.configuredPeers)),
		peers.NewPeerSet(clonePeers(n.genesisPeers)),
		store, n.trans, app)
	n.acceptedTxs = nil
	n.leaving = false
	n.lastSigs = map[int]map[string]string{}
	n.lastAnchor = -1
	n.anchorEpoch++
	n.started = true
	n.crashed = false
	if err := n.node.Init(); err != nil {
		return err
	}
	if !n.maintNext {
		c.openWire(n)
	}
	n.ownScanned = n.core().Seq()
	// a bootstrapped node that has to re-join first learns its head and sequence
	// number only once it is accepted; its store already holds its earlier events
	if last, err := store.LastEventFrom(n.pubHex); err == nil && last != "" {
		if ev, err := store.GetEvent(last); err == nil && ev.Index() > n.ownScanned {
			n.ownScanned = ev.Index()
		}
	}
	n.ownPayload = map[string]int{}
	n.sigChecked = map[string]bool{}
	n.frameChecked = map[int]bool{}
	return nil
}

// policyAccept is the application's (deterministic, network-wide) decision on
// a membership transaction.
func (c *Cluster) policyAccept(itx *hg.InternalTransaction) bool {
	if itx.Body.Type == hg.PEER_ADD && c.byPub[strings.ToUpper(itx.Body.Peer.PubKeyString())] == nil {
		// the application knows its applicants: a key nobody has heard of is refused
		return false
	}
	if strings.HasPrefix(c.policy, "refuse:") {
		var idx int
		fmt.Sscanf(c.policy, "refuse:%d", &idx)
		if idx < len(c.nodes) && itx.Body.Peer.PubKeyString() == c.nodes[idx].pubHex {
			return false
		}
	}
	return true
}

func (c *Cluster) violate(prop, oracle, key, format string, args ...interface{}) {
	v := &Violation{Property: prop, Oracle: oracle, Key: key, Message: fmt.Sprintf(format, args...), Step: c.stepNo}
	if prop == "C13" {
		// classification reads the nodes' state and must never cost the violation
		func() {
			defer func() {
				if r := recover(); r != nil {
					c.stats.probe("c13-classification-panicked")
					v.Message += fmt.Sprintf(" [classification failed: %v]", r)
				}
			}()
			c.classifyC13(v)
		}()
	}
	c.violations = append(c.violations, v)
}

func (c *Cluster) failed(prop string) *Violation {
	for _, v := range c.violations {
		if v.Property == prop {
			return v
		}
	}
	return nil
}

// onDeliver is called by a SimApp for every block its node delivers.
func (c *Cluster) onDeliver(n *SimNode, d *Delivery) {
	c.stats.BlocksDelivered++
	if len(d.Resp.InternalTransactionReceipts) > 0 && n.node != nil && !n.constructing {
		// does the set this block changes come into force at a round this node
		// already has events of? (open finding, see known_findings.json)
		func() {
			defer func() { recover() }()
			if n.core().Hashgraph().Store.LastRound() >= d.Block.RoundReceived()+6 {
				c.lateSetChangeSeen = true
				c.stats.probe("set-change-in-force-at-a-round-that-already-has-events")
			}
		}()
	}
	if _, ok := n.deliveredFrom[d.Epoch]; !ok {
		n.deliveredFrom[d.Epoch] = d.Block.Index()
	}
	idx := d.Block.Index()
	if prev, ok := c.chain[idx]; ok {
		if prev != d.Digest {
			ref := c.chainBody[idx]
			prop := "C01"
			if n.ffDone || (c.chainBy[idx] != nil && c.chainBy[idx].ffDone) {
				prop = "C13"
			}
			extra := ""
			if other := c.chainBy[idx]; other != nil && other.running() && n.running() {
				fa, ea := n.core().Hashgraph().Store.GetFrame(d.Block.RoundReceived())
				fb, eb := other.core().Hashgraph().Store.GetFrame(ref.RoundReceived())
				if ea == nil && eb == nil {
					extra = " frames: " + frameDiff(fa, fb)
				}
			}
			defer func() { c.violations[len(c.violations)-1].Message += extra }()
			if debugTrace {
				if other := c.chainBy[idx]; other != nil && other.running() && n.running() {
					fa, ea := n.core().Hashgraph().Store.GetFrame(d.Block.RoundReceived())
					if ea == nil {
						for _, fe := range fa.Events {
							h1 := fe.Core.Hex()
							e1, err1 := n.core().Hashgraph().Store.GetEvent(h1)
							e2, err2 := other.core().Hashgraph().Store.GetEvent(h1)
							if err1 != nil || err2 != nil {
								continue
							}
							r1, _ := n.core().Hashgraph().SimRoundOf(h1)
							r2, _ := other.core().Hashgraph().SimRoundOf(h1)
							if r1 != r2 {
								de := c.dag.events[h1]
								fmt.Fprintf(os.Stderr, "  DIVERGE event %s (n%d#%d) round %d at node %d (ff=%v lb=%d), %d at node %d; parents:", short(h1), c.byPub[de.Creator].idx, de.Index, r1, n.idx, n.ffDone, n.core().Hashgraph().SimRoundLowerBound(), r2, other.idx)
								for _, p := range []string{e1.SelfParent(), e1.OtherParent()} {
									pr1, perr1 := n.core().Hashgraph().SimRoundOf(p)
									pr2, _ := other.core().Hashgraph().SimRoundOf(p)
									dp := c.dag.events[p]
									if dp != nil {
										fmt.Fprintf(os.Stderr, " n%d#%d: %d(%v)/%d", c.byPub[dp.Creator].idx, dp.Index, pr1, perr1, pr2)
									}
								}
								fmt.Fprintf(os.Stderr, "\n")
								_ = e2
								pr := r2 - 1
								if ri, err := other.core().Hashgraph().Store.GetRound(pr); err == nil {
									for _, w := range ri.Witnesses() {
										dw := c.dag.events[w]
										ew, errw := n.core().Hashgraph().Store.GetEvent(w)
										rn, wn := -9, false
										fd := 0
										if errw == nil {
											rn, _ = n.core().Hashgraph().SimRoundOf(w)
											wn, _ = n.core().Hashgraph().SimWitness(w)
											fd = len(ew.SimFirstDescendants())
										}
										ewo, _ := other.core().Hashgraph().Store.GetEvent(w)
										fdo := 0
										if ewo != nil {
											fdo = len(ewo.SimFirstDescendants())
										}
										if dw != nil {
											fmt.Fprintf(os.Stderr, "     round %d witness n%d#%d: at node %d present=%v round=%d witness=%v firstDescendants=%d (other node: %d)\n", pr, c.byPub[dw.Creator].idx, dw.Index, n.idx, errw == nil, rn, wn, fd, fdo)
										}
									}
								}
								break
							}
						}
					}
				}
			}
			key := "block-divergence"
			if c.lateSetChangeSeen {
				key = "set-change-in-force-at-a-round-that-already-has-events"
			}
			c.violate(prop, "agreement", key,
				"node %d delivered block %d with digest %s, canonical %s (first delivered by node %d); differing fields: %s",
				n.idx, idx, d.Digest, prev, c.chainBy[idx].idx, bodyDiff(&d.Block.Body, d.Resp.StateHash, len(d.Resp.InternalTransactionReceipts), &ref.Body))
		}
	} else {
		c.chain[idx] = d.Digest
		c.chainBy[idx] = n
		full := d.Block
		full.Body.StateHash = d.Resp.StateHash
		full.Body.InternalTransactionReceipts = d.Resp.InternalTransactionReceipts
		c.chainBody[idx] = &full
		c.onCanonicalBlock(&full)
	}
	c.checkC18(n, d)
}

func (c *Cluster) onRestore(n *SimNode, snapshot []byte) {}

// runWakeups performs deferred promise wake-ups one at a time while the
// scheduler is otherwise parked.
func (c *Cluster) runWakeups() {
	for len(c.wakeups) > 0 {
		w := c.wakeups[0]
		c.wakeups = c.wakeups[1:]
		// In production the answer to a join / leave promise is sent on a channel
		// of capacity 2 from inside the commit, under the core lock. If nobody
		// will ever receive it, that send never returns and the node is wedged.
		done := false
		go func() {
			w()
			done = true
		}()
		synctest.Wait()
		if !done {
			c.violate(c.wedgeProp(), "no-wedge", "promise-answer-blocks-under-core-lock", "the answer to a join/leave promise cannot be delivered (nobody listens and the channel is full): in production this send happens inside the commit under the core lock and never returns, the node stops answering every request")
			c.stats.probe("promise-answer-blocked")
		}
	}
}

// wedgeProp: a node that stops answering is C08's subject when network input
// of a hostile peer was involved, otherwise reported like a panic.
func (c *Cluster) wedgeProp() string {
	if c.hostileSeen {
		return "C08"
	}
	return "PANIC"
}

func (c *Cluster) cleanup() {
	// let every outstanding timeout expire, then shut nodes down
	for _, t := range c.tasks {
		if t.parked && !t.done {
			t.aborted = true
			t.parked = false
			t.gate <- struct{}{}
			synctest.Wait()
		}
	}
	c.wakeups = nil
	for _, n := range c.nodes {
		if n.running() {
			func() {
				defer func() { recover() }()
				if n.state() != _state.Shutdown {
					n.node.Shutdown()
				}
			}()
		} else if n.store != nil && n.crashed {
			func() {
				defer func() { recover() }()
				n.store.Close()
			}()
		}
	}
	c.closeAllWires()
	time.Sleep(time.Duration(c.cfg.JoinTimeoutMs+1000) * 3 * time.Millisecond)
	synctest.Wait()
	if c.workdir != "" {
		os.RemoveAll(c.workdir)
	}
}

func bodyDiff(a *hg.BlockBody, aState []byte, aReceipts int, b *hg.BlockBody) string {
	out := ""
	if a.Index != b.Index {
		out += fmt.Sprintf("index %d/%d; ", a.Index, b.Index)
	}
	if a.RoundReceived != b.RoundReceived {
		out += fmt.Sprintf("round-received %d/%d; ", a.RoundReceived, b.RoundReceived)
	}
	if a.Timestamp != b.Timestamp {
		out += fmt.Sprintf("timestamp %d/%d; ", a.Timestamp, b.Timestamp)
	}
	if string(a.FrameHash) != string(b.FrameHash) {
		out += "frame hash; "
	}
	if string(a.PeersHash) != string(b.PeersHash) {
		out += "peers hash; "
	}
	if string(aState) != string(b.StateHash) {
		out += "state hash; "
	}
	if len(a.Transactions) != len(b.Transactions) {
		out += fmt.Sprintf("transactions %d/%d; ", len(a.Transactions), len(b.Transactions))
	} else {
		for i := range a.Transactions {
			if string(a.Transactions[i]) != string(b.Transactions[i]) {
				out += fmt.Sprintf("transaction[%d]; ", i)
				break
			}
		}
	}
	if len(a.InternalTransactions) != len(b.InternalTransactions) {
		out += fmt.Sprintf("internal transactions %d/%d; ", len(a.InternalTransactions), len(b.InternalTransactions))
	}
	if aReceipts != len(b.InternalTransactionReceipts) {
		out += fmt.Sprintf("receipts %d/%d; ", aReceipts, len(b.InternalTransactionReceipts))
	}
	return out
}

func newPeerFromKey(k *ecdsa.PrivateKey) *peers.Peer {
	return peers.NewPeer(keys.PublicKeyHex(&k.PublicKey), "stranger", "stranger")
}

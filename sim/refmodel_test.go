package sim

import (
	"fmt"
	"os"
	"testing"
	"time"
)

func TestRefNearRate(t *testing.T) {
	for _, gen := range []string{"synth", "gossip"} {
		for n := 4; n <= 7; n++ {
			r := NewRNG(uint64(1000 + n))
			hits, tot, rounds, decided := 0, 0, 0, 0
			hist := map[string]int{}
			st := time.Now()
			for k := 0; k < 6000; k++ {
				var plays []synthPlay
				if gen == "synth" {
					plays = synthPlays(r, n, 14)
				} else {
					plays = gossipPlays(r, n, 60+20*n)
				}
				d, _ := refFromPlays(n, plays)
				f := d.computeFame(4, nil)
				tot++
				rounds += len(d.wits)
				decided += len(f.fame)
				if len(f.nears) > 0 {
					hits++
					for _, nr := range f.nears {
						hist[fmt.Sprintf("%d/%d", nr.t, nr.ss)]++
					}
				}
			}
			fmt.Printf("%s n=%d: %d/%d DAGs with contrary near-miss; avg rounds %.1f decided witnesses %.1f; %.2f ms/DAG\n", gen, n, hits, tot, float64(rounds)/float64(tot), float64(decided)/float64(tot), float64(time.Since(st).Milliseconds())/float64(tot))
			fmt.Println("   ", hist)
		}
	}
}

func TestRefClimb(t *testing.T) {
	for n := 4; n <= 7; n++ {
		r := NewRNG(uint64(77 + n))
		ok, tot := 0, 0
		hist := map[string]int{}
		st := time.Now()
		for k := 0; k < 40; k++ {
			plays := gossipPlays(r, n, 50+12*n)
			if k%2 == 0 {
				plays = synthPlays(r, n, 8)
			}
			sm := refSuperMajority(n)
			_, f := climbPlays(r, n, plays, 10000, 4, func(f *refFame) bool {
				for _, nr := range f.nears {
					if nr.ss == sm && nr.t == sm-1 {
						return true
					}
				}
				return false
			})
			tot++
			bestT, bestS := 0, 1
			for _, nr := range f.nears {
				if nr.t*bestS > bestT*nr.ss {
					bestT, bestS = nr.t, nr.ss
				}
				if nr.ss == sm && nr.t == sm-1 {
					ok++
					break
				}
			}
			hist[fmt.Sprintf("%d/%d", bestT, bestS)]++
		}
		fmt.Printf("climb n=%d: %d/%d strong contrary votes; %.0f ms/run; best near per run %v\n", n, ok, tot, float64(time.Since(st).Milliseconds())/float64(tot), hist)
	}
}

func TestRefCoordsVsTextbook(t *testing.T) {
	for n := 4; n <= 7; n++ {
		r := NewRNG(uint64(500 + n))
		dags, roundDiff, under, fameDiff, wits, dissent := 0, 0, 0, 0, 0, 0
		for k := 0; k < 20000; k++ {
			plays := gossipPlays(r, n, 60+15*n)
			if k%2 == 0 {
				plays = synthPlays(r, n, 10)
			}
			a0, _ := refFromPlays(n, plays)
			a := newRefDag(n)
			a.coords = false
			for i := range a0.creator {
				a.add(a0.creator[i], a0.selfP[i], a0.otherP[i], "")
			}
			b := newRefDag(n)
			b.coords = true
			b.deep = true
			for i := range a.creator {
				b.add(a.creator[i], a.selfP[i], a.otherP[i], "")
			}
			dags++
			same := true
			for i := range a.round {
				if a.round[i] != b.round[i] {
					same = false
				}
			}
			if !same {
				roundDiff++
				continue
			}
			sm := refSuperMajority(n)
			for j := 1; j < len(b.wits); j++ {
				for _, y := range b.wits[j] {
					wits++
					ss := 0
					for _, w := range b.wits[j-1] {
						if b.stronglySees(y, w) {
							ss++
						}
					}
					if ss < sm {
						under++
					}
				}
			}
			fa := a.computeFame(4, nil)
			fb := b.computeFame(4, nil)
			for x, v := range fa.fame {
				if vb, ok := fb.fame[x]; ok && vb != v {
					fameDiff++
				}
			}
			dissent += len(fb.dissent)
		}
		fmt.Printf("n=%d: %d DAGs, rounds differ in %d; witnesses strongly seeing fewer than a supermajority of the previous round (coordinates): %d of %d; fame differs textbook/coordinates: %d; votes against a decision of the same round: %d\n", n, dags, roundDiff, under, wits, fameDiff, dissent)
	}
}

func TestRefLeaveBoundaryConflict(t *testing.T) {
	for _, n := range []int{5, 6} {
		r := NewRNG(uint64(900 + n))
		found, weak := 0, 0
		st := time.Now()
		for k := 0; k < 20; k++ {
			R := 3 + r.Intn(3)
			small := make([]int, n-1)
			for i := range small {
				small[i] = i
			}
			eval := func(p []synthPlay) *refFame {
				d := newRefDag(n)
				d.deep = true
				d.members = func(rr int) []int {
					if rr >= R {
						return small
					}
					return d.all
				}
				heads := make([]int, n)
				for i := range heads {
					heads[i] = -1
				}
				for _, pl := range p {
					op := -1
					if pl.other >= 0 {
						op = heads[pl.other]
						if op < 0 {
							continue
						}
					}
					if heads[pl.creator] < 0 && op < 0 && len(d.byCI[pl.creator]) > 0 {
						continue
					}
					heads[pl.creator] = d.add(pl.creator, heads[pl.creator], op, "")
				}
				return d.computeFame(4, nil)
			}
			cur := gossipPlays(r, n, 50+12*n)
			best := eval(cur)
			for it := 0; it < 15000 && len(best.conflicts) == 0; it++ {
				cand := mutatePlays(r, n, n, cur)
				f := eval(cand)
				if f.score >= best.score {
					cur, best = cand, f
				}
			}
			if len(best.weak) > 0 {
				weak++
			}
			if len(best.conflicts) > 0 {
				found++
			}
		}
		fmt.Printf("leave boundary n=%d: weak decisions in %d/20, conflicting decisions in %d/20 searches; %.0f ms/search\n", n, weak, found, float64(time.Since(st).Milliseconds())/20)
	}
}

// TestDeepSearch (DEEP_SEARCH=seed[,n,iters,want]): offline search for deep elections; prints play lists.
func TestDeepSearch(t *testing.T) {
	spec := os.Getenv("DEEP_SEARCH")
	if spec == "" {
		t.Skip()
	}
	var seed uint64
	n, iters, want := 4, 200000, 9
	fmt.Sscanf(spec, "%d,%d,%d,%d", &seed, &n, &iters, &want)
	r := NewRNG(seed)
	for k := 0; k < 8; k++ {
		var plays []synthPlay
		switch k % 3 {
		case 0:
			plays = synthPlays(r, n, 16)
		case 1:
			plays = gossipPlays(r, n, 40*n)
		default:
			if n == 4 {
				plays = splitVotePlays(r)
			} else {
				plays = synthPlays(r, n, 18)
			}
		}
		st := time.Now()
		out, res := climbDeep(r, n, plays, iters, 4, want)
		d, _ := refFromPlays(n, out)
		fmt.Printf("DEEP seed=%d k=%d n=%d last=%d dist=%d score=%.2f events=%d rounds=%d bits=%d %.1fs\n", seed, k, n, res.last, res.dist, res.score, len(out), len(d.wits), len(res.bits), time.Since(st).Seconds())
		if res.last >= want {
			s := ""
			for _, p := range out {
				s += fmt.Sprintf("%d,%d;", p.creator, p.other)
			}
			fmt.Printf("PLAYS n=%d last=%d %s\n", n, res.last, s)
		}
	}
}

package sim

import (
	"fmt"
	"testing"
	"time"
)

func TestRefNearRate(t *testing.T) {
	for _, gen := range []string{"synth", "gossip"} {
		for n := 4; n <= 7; n++ {
			r := NewRNG(uint64(1000 + n))
			hits, tot, rounds, decided := 0, 0, 0, 0
			st := time.Now()
			for k := 0; k < 2000; k++ {
				var plays []synthPlay
				if gen == "synth" {
					plays = synthPlays(r, n, 14)
				} else {
					plays = gossipPlays(r, n, 60+20*n)
				}
				d, _ := refFromPlays(n, plays)
				f := d.computeFame(4, nil)
				tot++
				rounds += len(d.wits)
				decided += len(f.fame)
				if len(f.nears) > 0 {
					hits++
				}
			}
			fmt.Printf("%s n=%d: %d/%d DAGs with contrary near-miss; avg rounds %.1f decided witnesses %.1f; %.2f ms/DAG\n", gen, n, hits, tot, float64(rounds)/float64(tot), float64(decided)/float64(tot), float64(time.Since(st).Milliseconds())/float64(tot))
		}
	}
}

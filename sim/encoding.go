package sim

import (
	"bytes"
	"encoding/json"
	"fmt"
	"github.com/mosaicnetworks/babble/src/config"
	"io"
	"sort"

	hg "github.com/mosaicnetworks/babble/src/hashgraph"
)

/*******************************************************************************
C15 encoding identity: hashes and signatures survive wire, JSON and database
forms.
*******************************************************************************/

func sameTxs(a, b [][]byte) bool {
	if len(a) != len(b) {
		return false
	}
	for i := range a {
		if !bytes.Equal(a[i], b[i]) {
			return false
		}
	}
	return true
}

// encodingChecksOnInsert: wire form round trip on a node that knows the parents.
func (c *Cluster) encodingChecksOnInsert(in *instance, de *DagEvent) {
	if in.err != nil {
		return
	}
	ev, err := in.h.Store.GetEvent(de.Hash)
	if err != nil {
		return
	}
	w := ev.ToWire()
	// the wire event crosses JSON on the transport
	var w2 hg.WireEvent
	raw, err := json.Marshal(w)
	if err != nil {
		c.violate("C15", "wire", "wire-event-not-encodable", "event %s: wire form cannot be JSON encoded: %v", short(de.Hash), err)
		return
	}
	if err := json.Unmarshal(raw, &w2); err != nil {
		c.violate("C15", "wire", "wire-event-not-decodable", "event %s: wire form cannot be JSON decoded: %v", short(de.Hash), err)
		return
	}
	back, err := in.h.ReadWireInfo(w2)
	if err != nil {
		c.violate("C15", "wire", "wire-roundtrip-error", "event %s: ReadWireInfo(ToWire(e)) failed on a node that knows its parents: %v", short(de.Hash), err)
		return
	}
	if back.Hex() != de.Hash {
		c.violate("C15", "wire", "wire-roundtrip-hash", "event %s: hash after wire round trip is %s (txs %d, itxs %d, sigs %d)", short(de.Hash), short(back.Hex()), len(de.Body.Transactions), len(de.Body.InternalTransactions), len(de.Body.BlockSignatures))
		return
	}
	if ok, err := back.Verify(); !ok || err != nil {
		c.violate("C15", "wire", "wire-roundtrip-signature", "event %s: signature no longer verifies after wire round trip: %v", short(de.Hash), err)
		return
	}
	if !sameTxs(back.Transactions(), de.Body.Transactions) {
		c.violate("C15", "wire", "wire-roundtrip-payload", "event %s: payload bytes changed by the wire round trip", short(de.Hash))
		return
	}
	c.stats.probe("c15-wire-roundtrip")
}

// encodingChecksFinal: blocks and frames through the JSON transport framing.
func (c *Cluster) encodingChecksFinal(in *instance) {
	store := in.h.Store
	for i := 0; i <= store.LastBlockIndex(); i++ {
		b, err := store.GetBlock(i)
		if err != nil {
			continue
		}
		var b2 hg.Block
		raw, err := json.Marshal(b)
		if err != nil || json.Unmarshal(raw, &b2) != nil {
			c.violate("C15", "json", "block-json-error", "block %d does not survive JSON", i)
			return
		}
		h1, _ := b.Body.Hash()
		h2, _ := b2.Body.Hash()
		if !bytes.Equal(h1, h2) {
			c.violate("C15", "json", "block-json-hash", "block %d: body hash changed by the JSON round trip", i)
			return
		}
		for k, sig := range b2.Signatures {
			if !verifySig(&b2.Body, k, sig) {
				c.violate("C15", "json", "block-json-signature", "block %d: signature of %s no longer verifies after the JSON round trip", i, short(k))
				return
			}
		}
		c.stats.probe("c15-block-json")
	}
	if in.h.LastConsensusRound == nil {
		return
	}
	for r := 0; r <= *in.h.LastConsensusRound; r++ {
		f, err := store.GetFrame(r)
		if err != nil {
			continue
		}
		var f2 hg.Frame
		raw, err := json.Marshal(f)
		if err != nil || json.Unmarshal(raw, &f2) != nil {
			c.violate("C15", "json", "frame-json-error", "frame %d does not survive JSON", r)
			return
		}
		h1, _ := f.Hash()
		h2, _ := f2.Hash()
		if !bytes.Equal(h1, h2) {
			c.violate("C15", "json", "frame-json-hash", "frame %d: hash changed by the JSON round trip (%s)", r, frameDiff(&f2, f))
			return
		}
		// the frame's own Marshal/Unmarshal (database form)
		raw2, err := f.Marshal()
		var f3 hg.Frame
		if err != nil || f3.Unmarshal(raw2) != nil {
			c.violate("C15", "db", "frame-db-error", "frame %d does not survive its database encoding", r)
			return
		}
		h3, _ := f3.Hash()
		if !bytes.Equal(h1, h3) {
			c.violate("C15", "db", "frame-db-hash", "frame %d: hash changed by the database encoding", r)
			return
		}
		c.stats.probe("c15-frame-json")
	}
	c.frameHandOverChecks(in)
}

// frameHandOverChecks: a frame keeps its hash when somebody resets from it and
// then serves it on - whoever holds it, whatever spare capacity its slices have.
// The three largest frames of the run are each sent through JSON, handed to a
// fresh hashgraph's Reset, and hashed again: the object the receiver holds and
// the frame its store serves afterwards.
func (c *Cluster) frameHandOverChecks(in *instance) {
	store := in.h.Store
	type fr struct {
		idx  int
		size int
	}
	frames := []fr{}
	for i := 0; i <= store.LastBlockIndex(); i++ {
		b, err := store.GetBlock(i)
		if err != nil {
			continue
		}
		f, err := store.GetFrame(b.RoundReceived())
		if err != nil {
			continue
		}
		frames = append(frames, fr{i, len(f.Events)})
	}
	sort.SliceStable(frames, func(i, j int) bool { return frames[i].size > frames[j].size })
	if len(frames) > 3 {
		frames = frames[:3]
	}
	for k, x := range frames {
		b, _ := store.GetBlock(x.idx)
		f, _ := store.GetFrame(b.RoundReceived())
		var b2 hg.Block
		var f2 hg.Frame
		cloneJSON(b, &b2)
		cloneJSON(f, &f2)
		if k%2 == 0 {
			// a holder whose slice happens to have room to spare
			ev := make([]*hg.FrameEvent, len(f2.Events), 4*len(f2.Events)+64)
			copy(ev, f2.Events)
			f2.Events = ev
		}
		want, _ := f.Hash()
		conf := config.NewDefaultConfig()
		conf.LogLevel = "panic"
		conf.Logger().Logger.Out = io.Discard
		h2 := hg.NewHashgraph(hg.NewInmemStore(10000), func(*hg.Block) error { return nil }, conf.Logger())
		if err := h2.Reset(&b2, &f2); err != nil {
			c.stats.probe("c15-frame-handover-reset-refused")
			continue
		}
		got, _ := f2.Hash()
		if !bytes.Equal(want, got) {
			c.violate("C15", "frame-handover", "frame-changed-by-reset", "frame of block %d (%d events): the receiver's copy hashes differently after Hashgraph.Reset was given it (%s)", x.idx, x.size, frameDiff(&f2, f))
			return
		}
		if sf, err := h2.Store.GetFrame(f.Round); err == nil {
			got2, _ := sf.Hash()
			if !bytes.Equal(want, got2) {
				c.violate("C15", "frame-handover", "stored-frame-changed-by-reset", "frame of block %d (%d events): the frame served by a node that reset from it hashes differently (%s)", x.idx, x.size, frameDiff(sf, f))
				return
			}
		}
		c.stats.probe("c15-frame-handover")
	}
}

// encodingChecksBadger: everything reloaded from the database decodes to the
// same hash, signature, wire info and coordinates.
func (c *Cluster) encodingChecksBadger(in *instance) {
	bs, ok := in.sn.store.(*hg.BadgerStore)
	if !ok || in.err != nil {
		return
	}
	n := 0
	for h := range in.events {
		cached, err := bs.GetEvent(h)
		if err != nil {
			continue
		}
		db, err := bs.SimDBGetEvent(h)
		if err != nil {
			c.violate("C15", "db", "event-db-missing", "event %s is in the store but cannot be read from the database: %v", short(h), err)
			return
		}
		if db.Hex() != h {
			c.violate("C15", "db", "event-db-hash", "event %s reloaded from the database has hash %s", short(h), short(db.Hex()))
			return
		}
		if ok, err := db.Verify(); !ok || err != nil {
			c.violate("C15", "db", "event-db-signature", "event %s reloaded from the database no longer verifies: %v", short(h), err)
			return
		}
		a1, a2, a3, a4 := cached.SimWireInfo()
		b1, b2, b3, b4 := db.SimWireInfo()
		if a1 != b1 || a2 != b2 || a3 != b3 || a4 != b4 {
			c.violate("C15", "db", "event-db-wireinfo", "event %s: wire info differs after reload (%d,%d,%d,%d vs %d,%d,%d,%d)", short(h), b1, b2, b3, b4, a1, a2, a3, a4)
			return
		}
		if cached.SimTopologicalIndex() != db.SimTopologicalIndex() {
			c.violate("C15", "db", "event-db-topological-index", "event %s: topological index %d in the database, %d in memory", short(h), db.SimTopologicalIndex(), cached.SimTopologicalIndex())
			return
		}
		if fmt.Sprint(sortedCoords(cached.SimLastAncestors())) != fmt.Sprint(sortedCoords(db.SimLastAncestors())) ||
			fmt.Sprint(sortedCoords(cached.SimFirstDescendants())) != fmt.Sprint(sortedCoords(db.SimFirstDescendants())) {
			c.violate("C15", "db", "event-db-coordinates", "event %s: ancestor/descendant coordinates differ between database and memory", short(h))
			return
		}
		n++
	}
	for i := 0; i <= bs.LastBlockIndex(); i++ {
		cb, err := bs.GetBlock(i)
		if err != nil {
			continue
		}
		db, err := bs.SimDBGetBlock(i)
		if err != nil {
			c.violate("C15", "db", "block-db-missing", "block %d cannot be read from the database: %v", i, err)
			return
		}
		h1, _ := cb.Body.Hash()
		h2, _ := db.Body.Hash()
		if !bytes.Equal(h1, h2) && len(cb.Body.StateHash) == len(db.Body.StateHash) {
			c.violate("C15", "db", "block-db-hash", "block %d: body hash differs between database and memory", i)
			return
		}
	}
	c.stats.Probes["c15-db-events-reloaded"] += n
}

func sortedCoords(m hg.CoordinatesMap) []string {
	out := []string{}
	for k, v := range m {
		out = append(out, fmt.Sprintf("%s:%d:%s", short(k[len(k)-8:]), v.Index, short(v.Hash)))
	}
	sortStrings(out)
	return out
}

func sortStrings(a []string) {
	for i := 1; i < len(a); i++ {
		for j := i; j > 0 && a[j] < a[j-1]; j-- {
			a[j], a[j-1] = a[j-1], a[j]
		}
	}
}

package sim

import (
	"encoding/json"
	"fmt"
	"io"
	gonet "net"
	"strings"
	"testing/synctest"
	"time"

	"github.com/mosaicnetworks/babble/src/config"
	"github.com/mosaicnetworks/babble/src/net"
)

// pipeStreamLayer satisfies net.StreamLayer; connections are handed to the
// transport directly (SimHandleConn), so Accept never returns anything.
type pipeStreamLayer struct{ closed chan struct{} }

func (p *pipeStreamLayer) Accept() (gonet.Conn, error) {
	<-p.closed
	return nil, fmt.Errorf("closed")
}
func (p *pipeStreamLayer) Close() error {
	select {
	case <-p.closed:
	default:
		close(p.closed)
	}
	return nil
}
func (p *pipeStreamLayer) Addr() gonet.Addr { return nil }
func (p *pipeStreamLayer) Dial(address string, timeout time.Duration) (gonet.Conn, error) {
	return nil, fmt.Errorf("no dial")
}
func (p *pipeStreamLayer) AdvertiseAddr() string { return "raw" }

func (c *Cluster) rawPayload(r *RNG, victim, byz *SimNode) []byte {
	typ := byte(r.Intn(4))
	if r.Bool(0.15) {
		typ = byte(r.Intn(256))
	}
	var body []byte
	switch r.Intn(9) {
	case 0:
		body = r.Bytes(r.Intn(200))
	case 1:
		body = []byte(`{"FromID":1,"Known":{"1":2},"SyncLimit":`)
	case 2:
		body = []byte(`[1,2,3]` + "\n")
	case 3:
		body = []byte(`"just a string"` + "\n")
	case 4:
		body = []byte(strings.Repeat("[", 5000) + "\n")
	case 5:
		body = []byte(`{"FromID":-1,"Known":{"x":1},"SyncLimit":"a"}` + "\n")
	case 6:
		req := &net.SyncRequest{FromID: byz.id, Known: c.hostileKnown(r, victim), SyncLimit: hostileInt(r)}
		body, _ = json.Marshal(req)
		body = append(body, '\n')
		typ = 1
	case 7:
		req := &net.EagerSyncRequest{FromID: byz.id, Events: c.hostileWireEvents(r, victim, byz)}
		body, _ = json.Marshal(req)
		body = append(body, '\n')
		typ = 2
	case 8:
		body = []byte(`{"InternalTransaction":{"Body":{"Type":7,"Peer":{"NetAddr":"","PubKeyHex":"","Moniker":""}},"Signature":""}}` + "\n")
		typ = 0
	}
	out := append([]byte{typ}, body...)
	if r.Bool(0.3) {
		// a second command on the same connection
		out = append(out, byte(r.Intn(4)))
		out = append(out, []byte(`{"FromID":3}`+"\n")...)
	}
	return out
}

// byzRawBytesStep writes a byte string to a real NetworkTransport connection
// whose consumer is the victim's real processRPC.
func (c *Cluster) byzRawBytesStep(s *Step) {
	victim := c.nodeAt(s.A)
	byz := c.byzNode()
	if victim == nil || byz == nil || !victim.running() {
		return
	}
	r := c.inner
	payload := c.rawPayload(r, victim, byz)
	c.stats.probe("c08-input:raw-bytes")
	conf := config.NewDefaultConfig()
	conf.LogLevel = "panic"
	conf.Logger().Logger.Out = io.Discard
	sl := &pipeStreamLayer{closed: make(chan struct{})}
	trans := net.NewNetworkTransport(sl, 2, time.Second, time.Second, conf.Logger())
	done := make(chan struct{})
	report := func(where string) {
		if rec := recover(); rec != nil {
			c.violate("C08", "no-panic", "panic@"+topFrame(), "panic in %s on raw bytes %q: %v at %s", where, clipS(string(payload), 60), rec, topFrame())
		}
	}
	vn := victim.node
	go func() {
		for {
			select {
			case rpc := <-trans.Consumer():
				func() {
					defer report("processRPC")
					vn.SimProcessRPC(rpc)
				}()
			case <-done:
				return
			}
		}
	}()
	client, server := gonet.Pipe()
	go func() {
		defer report("NetworkTransport.handleConn")
		trans.SimHandleConn(server)
	}()
	go io.Copy(io.Discard, client)
	go func() {
		client.Write(payload)
	}()
	synctest.Wait()
	time.Sleep(1500 * time.Millisecond)
	synctest.Wait()
	client.Close()
	server.Close()
	close(done)
	trans.Close()
	synctest.Wait()
}

package sim

import (
	"fmt"

	_state "github.com/mosaicnetworks/babble/src/node/state"
	"github.com/mosaicnetworks/babble/src/peers"
)

// spawnJoiner creates the identity's node in Joining state: it is configured
// (as an operator would) with the peer list of a running node and the genesis
// peer list.
func (c *Cluster) spawnJoiner(a *SimNode, s *Step) {
	via := c.nodeAt(s.B)
	var cfgPeers []*peers.Peer
	if s.Kind == "genesis-peers" || via == nil || !via.running() {
		for _, m := range c.genesisSet {
			cfgPeers = append(cfgPeers, m.peer())
		}
	} else {
		cfgPeers = clonePeers(via.core().Peers().Peers)
	}
	a.configuredPeers = cfgPeers
	a.genesisPeers = nil
	for _, m := range c.genesisSet {
		a.genesisPeers = append(a.genesisPeers, m.peer())
	}
	a.storeKind = "inmem"
	if s.N == 1 {
		a.storeKind = "badger"
	}
	a.cacheSize = c.cfg.CacheSize
	a.fastSync = s.F > 0.5
	a.joinedLate = true
	if err := c.startNode(a, false); err != nil {
		panic(harnessError{fmt.Sprintf("start joiner %d: %v", a.idx, err)})
	}
	c.stats.probe("joiner-spawned")
}

func (c *Cluster) genJoin(g *genState) *Step {
	if g.joins >= c.cfg.MaxJoins {
		return nil
	}
	r := c.gen
	// re-join of a node that left earlier, or a brand new identity
	var a *SimNode
	if r.Bool(0.25) {
		for _, n := range c.nodes {
			if n.left && !n.byz && n.storeKind == "badger" && !n.ffDone && (n.task == nil || n.task.done) {
				a = n
				break
			}
		}
	}
	vias := []*SimNode{}
	for _, n := range c.nodes {
		if n.running() && n.state() == _state.Babbling && !n.leaving {
			vias = append(vias, n)
		}
	}
	if len(vias) == 0 {
		return nil
	}
	via := vias[r.Intn(len(vias))]
	g.joins++
	if a != nil {
		return &Step{Op: "rejoin", A: a.idx, B: via.idx}
	}
	st := &Step{Op: "join", A: len(c.nodes), B: via.idx}
	if r.Bool(0.3) {
		st.Kind = "genesis-peers"
	}
	if c.cfg.FastSyncLate && r.Bool(0.7) {
		st.F = 1
	}
	pb := 0.2
	if c.cfg.PJoinerBadger > 0 {
		pb = c.cfg.PJoinerBadger
	}
	if r.Bool(pb) {
		st.N = 1
	}
	return st
}

func (c *Cluster) genLeave(g *genState) *Step {
	if g.leaves >= c.cfg.MaxLeaves {
		return nil
	}
	cands := []*SimNode{}
	for _, n := range c.nodes {
		if n.running() && !n.silent && n.state() == _state.Babbling && !n.leaving && n.inLatestModelSet() {
			cands = append(cands, n)
		}
	}
	// keep at least two validators around
	if len(cands) <= 2 || len(c.vs.latest()) <= 2 {
		return nil
	}
	g.leaves++
	return &Step{Op: "leave", A: cands[c.gen.Intn(len(cands))].idx}
}

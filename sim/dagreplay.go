package sim

import (
	"bytes"
	"fmt"
	"io"
	"os"
	"path/filepath"
	"sort"

	"github.com/mosaicnetworks/babble/src/config"
	hg "github.com/mosaicnetworks/babble/src/hashgraph"
	"github.com/mosaicnetworks/babble/src/node"
	"github.com/mosaicnetworks/babble/src/peers"
)

/*******************************************************************************
E2 dagreplay: the global DAG of an E1 history is re-inserted into fresh,
independent instances under seeded topological orders, sub-DAGs, stores, cache
sizes and batchings (C03); the same traffic is used to check the encoding
identities (C15).
*******************************************************************************/

// instance is one independent consumer of events: a real Node (so that
// receipts move the validator set as in production) with an observer key.
type instance struct {
	name   string
	sn     *SimNode
	h      *hg.Hashgraph
	err    error // first store/insert error (unsupported configuration)
	events map[string]bool
	// a membership change came into force at a round that already had events in
	// this instance (open finding C10 set-change-in-force-...): what the instance
	// computes then depends on the order of insertion
	lateSetChange bool
	nSets         int
	seenSet       map[int]bool
}

func (c *Cluster) newInstance(name, storeKind string, cache int) *instance {
	c.instSeq++
	k := deriveKey(c.seed, 5000+c.instSeq)
	sn := &SimNode{
		idx: 1000 + c.instSeq, key: k, c: c, storeKind: storeKind, cacheSize: cache,
		addr: fmt.Sprintf("inst%d", c.instSeq), moniker: name,
		deliveredFrom: map[int]int{}, lastSigs: map[int]map[string]string{},
	}
	sn.app = newSimApp(c, sn)
	sn.app.shadow = true
	sn.trans = newSimTransport(c, sn)
	conf := config.NewDefaultConfig()
	conf.LogLevel = "panic"
	conf.Logger().Logger.Out = io.Discard
	conf.CacheSize = cache
	var store hg.Store
	if storeKind == "badger" {
		p := filepath.Join(c.workdir, fmt.Sprintf("inst-%d", c.instSeq))
		bs, err := hg.NewBadgerStore(cache, p, false, conf.Logger())
		if err != nil {
			panic(harnessError{"instance store: " + err.Error()})
		}
		store = bs
		sn.dbPath = p
	} else {
		store = hg.NewInmemStore(cache)
	}
	sn.store = store
	gp := []*peers.Peer{}
	for _, m := range c.genesisSet {
		gp = append(gp, m.peer())
	}
	sn.node = node.NewNode(conf, node.NewValidator(k, name), peers.NewPeerSet(clonePeers(gp)), peers.NewPeerSet(clonePeers(gp)), store, sn.trans, sn.app)
	sn.started = true
	return &instance{name: name, sn: sn, h: sn.node.SimCore().Hashgraph(), events: map[string]bool{}}
}

func (in *instance) close() {
	defer func() { recover() }()
	in.sn.store.Close()
}

func eventFromRecord(de *DagEvent) *hg.Event {
	ev := &hg.Event{Signature: de.Signature}
	cloneJSON(&de.Body, &ev.Body)
	return ev
}

// insert feeds one event with a full consensus pass (per-event batching).
func (in *instance) insert(de *DagEvent) {
	progress.Add(1)
	if in.err != nil {
		return
	}
	ev := eventFromRecord(de)
	if err := in.h.InsertEventAndRunConsensus(ev, true); err != nil {
		in.err = fmt.Errorf("insert %s: %v", short(de.Hash), err)
		return
	}
	in.events[de.Hash] = true
	if err := in.h.ProcessSigPool(); err != nil {
		// malformed signature payloads are not part of honest DAGs
		in.err = fmt.Errorf("sigpool: %v", err)
	}
	in.noteSetChanges()
}

// noteSetChanges: did a new validator set just come into force at a round the
// instance already has events of?
func (in *instance) noteSetChanges() {
	sets, err := in.h.Store.GetAllPeerSets()
	if err != nil || len(sets) == in.nSets {
		return
	}
	in.nSets = len(sets)
	last := in.h.Store.LastRound()
	for r := range sets {
		if r > 0 && r <= last {
			// (a set recorded for a round <= the last round: either late, or an old one seen again)
			if !in.seenSet[r] {
				in.lateSetChange = true
			}
		}
		if in.seenSet == nil {
			in.seenSet = map[int]bool{}
		}
		in.seenSet[r] = true
	}
}

// insertOnly inserts without running consensus (batched variants).
func (in *instance) insertOnly(de *DagEvent) {
	if in.err != nil {
		return
	}
	ev := eventFromRecord(de)
	if err := in.h.InsertEvent(ev, true); err != nil {
		in.err = fmt.Errorf("insert %s: %v", short(de.Hash), err)
		return
	}
	in.events[de.Hash] = true
}

func (in *instance) pass() {
	if in.err != nil {
		return
	}
	for _, f := range []func() error{in.h.DivideRounds, in.h.DecideFame, in.h.DecideRoundReceived, in.h.ProcessDecidedRounds, in.h.ProcessSigPool} {
		if err := f(); err != nil {
			in.err = fmt.Errorf("consensus pass: %v", err)
			return
		}
	}
	in.noteSetChanges()
}

// topoOrder returns the record in a topological order (parents first), stable
// with respect to first observation.
func (d *DagRecord) topoOrder() []*DagEvent {
	done := map[string]bool{}
	out := make([]*DagEvent, 0, len(d.order))
	var visit func(e *DagEvent)
	visit = func(e *DagEvent) {
		if e == nil || done[e.Hash] {
			return
		}
		done[e.Hash] = true
		visit(d.events[e.SelfP])
		visit(d.events[e.OtherP])
		out = append(out, e)
	}
	for _, e := range d.order {
		visit(e)
	}
	return out
}

// randomTopo draws a seeded random linear extension of the record restricted
// to subset (nil = everything whose parents are available).
func (d *DagRecord) randomTopo(r *RNG, base []*DagEvent, subset map[string]bool) []*DagEvent {
	inSet := func(h string) bool { return subset == nil || subset[h] }
	children := map[string][]*DagEvent{}
	indeg := map[string]int{}
	for _, e := range base {
		if !inSet(e.Hash) {
			continue
		}
		n := 0
		for _, p := range []string{e.SelfP, e.OtherP} {
			if pe := d.events[p]; pe != nil && inSet(p) {
				children[p] = append(children[p], e)
				n++
			}
		}
		indeg[e.Hash] = n
	}
	ready := []*DagEvent{}
	for _, e := range base {
		if inSet(e.Hash) && indeg[e.Hash] == 0 {
			ready = append(ready, e)
		}
	}
	out := []*DagEvent{}
	for len(ready) > 0 {
		i := r.Intn(len(ready))
		e := ready[i]
		ready[i] = ready[len(ready)-1]
		ready = ready[:len(ready)-1]
		out = append(out, e)
		for _, ch := range children[e.Hash] {
			indeg[ch.Hash]--
			if indeg[ch.Hash] == 0 {
				ready = append(ready, ch)
			}
		}
	}
	return out
}

// downwardClosed picks a seeded ancestor-closed subset.
func (d *DagRecord) downwardClosed(r *RNG, base []*DagEvent) map[string]bool {
	sub := map[string]bool{}
	var add func(h string)
	add = func(h string) {
		e := d.events[h]
		if e == nil || sub[h] {
			return
		}
		sub[h] = true
		add(e.SelfP)
		add(e.OtherP)
	}
	k := 1 + r.Intn(4)
	cut := len(base)/4 + r.Intn(len(base)*3/4+1)
	if cut >= len(base) {
		cut = len(base) - 1
	}
	for i := 0; i < k && cut >= 0; i++ {
		add(base[r.Intn(cut+1)].Hash)
	}
	// plus a prefix
	for _, e := range base[:r.Intn(cut+1)] {
		add(e.Hash)
	}
	return sub
}

type eventFacts struct {
	round, lamport, rr int
	witness            bool
	fame               int  // 0 undecided
	riKnown            bool // the round's RoundInfo was available (it is cache-only)
}

func (in *instance) facts(hash string) (eventFacts, bool) {
	ev, err := in.h.Store.GetEvent(hash)
	if err != nil {
		return eventFacts{}, false
	}
	f := eventFacts{round: ev.SimRound(), lamport: ev.SimLamport(), rr: ev.SimRoundReceived()}
	if f.round < 0 {
		// an event reloaded from the database has lost its derived fields
		if r, err := in.h.SimRoundOf(hash); err == nil {
			f.round = r
		}
	}
	if f.round >= 0 {
		if ri, err := in.h.Store.GetRound(f.round); err == nil {
			known, w, fame := ri.SimFame(hash)
			f.witness = w
			f.fame = fame
			f.riKnown = known
		}
	}
	return f, true
}

// compare checks a variant against the reference (C03 oracle).
func (c *Cluster) compareInstances(ref, v *instance, whole bool) {
	if c.cfg.Profile == "C01" {
		// two honest views of one history: what counts is what they deliver
		rl, vl := ref.sn.app.log, v.sn.app.log
		for i := 0; i < len(vl) && i < len(rl); i++ {
			if vl[i].Digest != rl[i].Digest {
				c.violate("C01", "agreement", "block-divergence", "two instances fed the same events in different valid orders (%s vs creation order) delivered different blocks %d: %s", v.name, vl[i].Block.Index(),
					bodyDiff(&vl[i].Block.Body, vl[i].Resp.StateHash, len(vl[i].Resp.InternalTransactionReceipts), fullBody(rl[i])))
				return
			}
		}
	}
	hashes := make([]string, 0, len(v.events))
	for h := range v.events {
		hashes = append(hashes, h)
	}
	sort.Strings(hashes)
	for _, h := range hashes {
		fv, okv := v.facts(h)
		fr, okr := ref.facts(h)
		if !okv || !okr {
			continue // evicted in a small-cache variant
		}
		if fv.round >= 0 && fr.round >= 0 && fv.round != fr.round {
			c.violate("C03", "round", "round-differs", "variant %s: event %s has round %d, reference %d", v.name, short(h), fv.round, fr.round)
			return
		}
		if !fv.riKnown || !fr.riKnown {
			// round information evicted from the (cache-only) round store: rounds and
			// Lamport timestamps are still comparable, witness flag and fame are not
			fv.fame, fr.fame = 0, 0
			fv.witness = fr.witness
		}
		if fv.round >= 0 && fr.round >= 0 && fv.witness != fr.witness {
			c.violate("C03", "witness", "witness-flag-differs", "variant %s: event %s witness=%v, reference %v", v.name, short(h), fv.witness, fr.witness)
			return
		}
		if fv.lamport >= 0 && fr.lamport >= 0 && fv.lamport != fr.lamport {
			c.violate("C03", "lamport", "lamport-differs", "variant %s: event %s has Lamport timestamp %d, reference %d", v.name, short(h), fv.lamport, fr.lamport)
			return
		}
		if fv.fame != 0 && fr.fame != 0 && fv.fame != fr.fame {
			c.violate("C03", "fame", "fame-differs", "variant %s: witness %s fame %d, reference %d", v.name, short(h), fv.fame, fr.fame)
			return
		}
		// a witness that arrived after its round was decided stays undecided for
		// good (it can no longer be famous): only a FAMOUS verdict that the
		// reference lacks is a disagreement
		if fv.fame == 1 && fr.fame == 0 && whole {
			c.violate("C03", "fame", "famous-only-in-variant", "variant %s decided that %s is famous, the reference (same events) left it undecided", v.name, short(h))
			return
		}
		if fr.fame == 1 && fv.fame == 0 && whole {
			c.violate("C03", "fame", "famous-only-in-reference", "the reference decided that %s is famous, variant %s (same events) left it undecided", short(h), v.name)
			return
		}
		if fv.rr >= 0 && fr.rr >= 0 && fv.rr != fr.rr {
			c.violate("C03", "round-received", "round-received-differs", "variant %s: event %s received in round %d, reference %d", v.name, short(h), fv.rr, fr.rr)
			return
		}
		if fv.rr >= 0 && fr.rr < 0 {
			c.violate("C03", "round-received", "round-received-only-in-variant", "variant %s (a subset of the reference's events) assigned round-received %d to %s, the reference none", v.name, fv.rr, short(h))
			return
		}
	}
	// blocks: prefix of the reference's, equal when the variant holds the whole DAG
	rl, vl := ref.sn.app.log, v.sn.app.log
	if len(vl) > len(rl) {
		c.violate("C03", "blocks", "variant-has-more-blocks", "variant %s produced %d blocks, the reference %d", v.name, len(vl), len(rl))
		return
	}
	for i := range vl {
		if vl[i].Digest != rl[i].Digest {
			c.violate(c.blockProp(), "blocks", "block-differs", "variant %s (same events, another valid insertion order / view): block %d differs from the reference instance's: %s", v.name, vl[i].Block.Index(),
				bodyDiff(&vl[i].Block.Body, vl[i].Resp.StateHash, len(vl[i].Resp.InternalTransactionReceipts), fullBody(rl[i])))
			return
		}
	}
	if whole && len(vl) != len(rl) {
		c.violate("C03", "blocks", "block-count-differs", "variant %s holds the same events but produced %d blocks, the reference %d", v.name, len(vl), len(rl))
		return
	}
	// frames
	if v.h.LastConsensusRound != nil {
		for r := 0; r <= *v.h.LastConsensusRound; r++ {
			fv, err := v.h.Store.GetFrame(r)
			if err != nil {
				continue
			}
			fr, err := ref.h.Store.GetFrame(r)
			if err != nil {
				continue
			}
			hv, _ := fv.Hash()
			hr, _ := fr.Hash()
			if !bytes.Equal(hv, hr) {
				c.violate("C03", "frames", "frame-differs", "variant %s: frame of round %d differs from the reference: %s", v.name, r, frameDiff(fv, fr))
				return
			}
		}
	}
}

func fullBody(d *Delivery) *hg.BlockBody {
	b := d.Block.Body
	b.StateHash = d.Resp.StateHash
	b.InternalTransactionReceipts = d.Resp.InternalTransactionReceipts
	return &b
}

// dagReplay runs the E2 engine on the record of the finished E1 history.
func (c *Cluster) dagReplay(variants int) {
	c.harvestAll()
	if len(c.dag.forks) > 0 || len(c.dag.order) < 4 {
		return
	}
	base := c.dag.topoOrder()
	// every event must have its parents in the record (no reset-node fragments)
	for _, e := range base {
		for _, p := range []string{e.SelfP, e.OtherP} {
			if p != "" && c.dag.events[p] == nil {
				c.stats.probe("dagreplay-skipped-incomplete-dag")
				return
			}
		}
	}
	static := c.stats.Probes["validator-set-change"] == 0
	r := NewRNG(Mix(c.seed, 0x64616772))
	ref := c.newInstance("reference", "inmem", 10000)
	defer ref.close()
	window := 0
	// rounds that the reference instance had decided while an earlier round was
	// still open (they waited in the queue, decided)
	c.refQueued = map[int]bool{}
	for _, e := range base {
		ref.insert(e)
		if w := len(ref.h.UndeterminedEvents); w > window {
			window = w
		}
		open := false
		for _, pr := range ref.h.PendingRounds.GetOrderedPendingRounds() {
			if !pr.Decided {
				open = true
			} else if open {
				c.refQueued[pr.Index] = true
			}
		}
		c.encodingChecksOnInsert(ref, e)
	}
	if len(c.refQueued) > 0 {
		c.stats.probe("dagreplay-round-decided-behind-an-open-round")
	}
	if ref.err != nil {
		c.stats.probe("dagreplay-reference-error")
		c.violate("C03", "reference", "reference-instance-error", "the reference instance could not replay the recorded DAG in creation order: %v", ref.err)
		return
	}
	c.stats.probe("dagreplay-dag")
	c.checkFairContinuation(ref)
	// the reference model runs over every replayed history (per-round sets as the
	// reference instance derived them): cross-check and fragile votes
	c.findNears(ref)
	c.crossCheckRefModel(ref)
	c.trace.add(fmt.Sprintf("dag:%s:%d", c.dagShape(), len(ref.sn.app.log)))
	c.stats.BlocksDelivered += len(ref.sn.app.log)
	c.stats.probeMax("dagreplay-events-max", len(base))
	c.encodingChecksFinal(ref)
	for vi := 0; vi < variants; vi++ {
		kind := []string{"order", "order", "subdag", "store", "cache", "batch", "delay", "delay", "smallbadger", "smallbadger", "latepass", "heldwitness", "heldwitness"}[r.Intn(13)]
		if len(c.refQueued) > 0 && vi < 3 {
			kind = "heldwitness"
		} else if c.synthetic && r.Bool(0.5) {
			kind = "delay"
			if c.cfg.Profile != "C01" && r.Bool(0.5) {
				kind = "smallbadger"
			}
		}
		if c.cfg.Profile == "C01" && (kind == "batch" || kind == "subdag" || kind == "latepass") {
			// nodes always run a consensus pass per inserted event; batching is C03's subject
			kind = "order"
		}
		name := fmt.Sprintf("%s#%d", kind, vi)
		storeKind := "inmem"
		cache := 10000
		var subset map[string]bool
		whole := true
		batch := 1
		latePass := 0
		switch kind {
		case "subdag":
			subset = c.dag.downwardClosed(r, base)
			whole = false
		case "store":
			storeKind = "badger"
			if r.Bool(0.5) {
				cache = maxInt(4*window+20*len(c.genesisSet)+50, 200)
			}
		case "smallbadger":
			// a persistent store whose cache is just above the in-flight window:
			// most of the history is re-read from the database
			storeKind = "badger"
			cache = maxInt(window+10*len(c.genesisSet)+10, 30) + r.Intn(30)
			if r.Bool(0.5) {
				// tight: around the largest number of undetermined events the
				// reference instance ever held - undetermined events themselves get
				// evicted and re-read between two passes
				cache = maxInt(window-8+r.Intn(20), 20)
				c.stats.probe("dagreplay-smallbadger-tight")
			}
		case "cache":
			// from the in-flight window up to the default
			cache = maxInt(4*window+20*len(c.genesisSet)+50, 200) + r.Intn(500)
		case "latepass":
			// rounds are divided after every insertion (so the known finding about
			// batched insertions does not apply), but fame, round-received and block
			// production only run every k insertions
			if !static {
				kind = "order"
			} else {
				latePass = []int{2, 3, 7, 20, 1 << 30}[r.Intn(5)]
			}
		case "batch":
			if !static {
				kind = "order"
			} else {
				batch = []int{2, 3, 7, 20, 1 << 30}[r.Intn(5)]
			}
		}
		order := c.dag.randomTopo(r, base, subset)
		if kind == "delay" || (kind == "smallbadger" && r.Bool(0.6)) {
			order = c.dag.delayedOrder(r, base)
		}
		nearVariants := 6
		if !c.synthetic {
			nearVariants = 2 // harvested histories keep most variants for orders, sub-DAGs, stores, caches
		}
		if !c.synthetic && whole && (vi == 2 || vi == 3) && batch == 1 && latePass == 0 {
			// the order in which one of the real nodes of the run inserted the events
			// (a genuine lagging view), completed with what that node never received
			if vo := c.nodeViewOrder(r, base); vo != nil {
				kind = "view"
				order = vo
				name = fmt.Sprintf("%s#%d", kind, vi)
				cache = 10000
			}
		}
		if len(c.synthNears) > 0 && vi < 2*len(c.synthNears) && vi < nearVariants && whole {
			// two lagging views around a fragile vote: one learns about the lopsided
			// voter first, the other about the real decider first
			kind = "near-early"
			if vi%2 == 1 {
				kind = "near-late"
			}
			batch = 1
			latePass = 0
			order = c.dag.prioritised(r, base, c.synthNears[vi/2][vi%2])
			name = fmt.Sprintf("%s#%d", kind, vi)
			// these orders hold far more events in flight than the reference order the
			// small caches were sized for: stay inside the supported range
			cache = 10000
		}
		c.stats.fault("insertion-order-variant")
		name = fmt.Sprintf("%s[%s cache=%d batch=%d latepass=%d events=%d/%d window=%d]", name, storeKind, cache, batch, latePass, len(order), len(base), window)
		v := c.newInstance(name, storeKind, cache)
		c.stats.probe("dagreplay-variant:" + kind)
		if kind == "heldwitness" {
			// one witness (and everything that descends from it) is withheld until
			// its round has been decided without it while an earlier round is
			// still open - the round then waits in the queue, decided, when the
			// late witness arrives
			order = c.heldWitnessInsert(r, ref, v, base)
		}
		for i, e := range order {
			if kind == "heldwitness" {
				break // (already inserted, online)
			}
			if latePass > 1 {
				v.insertOnly(e)
				v.divide()
				if (i+1)%latePass == 0 {
					v.latePass()
				}
			} else if batch > 1 {
				v.insertOnly(e)
				if (i+1)%batch == 0 {
					v.pass()
				}
			} else {
				v.insert(e)
			}
		}
		if latePass > 1 {
			v.latePass()
			v.latePass()
		}
		if batch > 1 {
			v.pass()
			// decisions may need further passes only if new information arrived; one more is harmless
			v.pass()
		}
		if v.err != nil {
			// explicit store error: unsupported configuration (cache below the supported range), not silent disagreement
			c.stats.probe("dagreplay-variant-unsupported")
			v.close()
			continue
		}
		nv := len(c.violations)
		if debugTrace {
			fmt.Fprintf(os.Stderr, "variant %s: err=%v blocks=%d ref blocks=%d\n", name, v.err, len(v.sn.app.log), len(ref.sn.app.log))
			for _, e := range base {
				if e.Creator == c.nodes[len(c.nodes)-1].pubHex {
					fr, _ := ref.facts(e.Hash)
					fv, _ := v.facts(e.Hash)
					fmt.Fprintf(os.Stderr, "  straggler event #%d: ref round=%d wit=%v fame=%d rr=%d | variant round=%d wit=%v fame=%d rr=%d\n", e.Index, fr.round, fr.witness, fr.fame, fr.rr, fv.round, fv.witness, fv.fame, fv.rr)
				}
			}
			pos := map[string]int{}
			for i, e := range order {
				pos[e.Hash] = i
			}
			for _, e := range base {
				if e.Creator == c.nodes[len(c.nodes)-1].pubHex {
					fmt.Fprintf(os.Stderr, "  straggler event #%d inserted at position %d of %d\n", e.Index, pos[e.Hash], len(order))
				}
			}
		}
		c.compareInstances(ref, v, whole && len(order) == len(base))
		if ref.lateSetChange || v.lateSetChange {
			// one class, whatever the symptom (see known_findings.json): a membership
			// change came into force at a round that already had events
			for _, viol := range c.violations[nv:] {
				if viol.Property == "C03" || viol.Property == "C01" {
					viol.Key = "set-change-in-force-at-a-round-that-already-has-events"
				}
			}
			c.stats.probe("dagreplay-late-set-change")
		}
		if batch > 1 {
			// disagreements of variants that batch the consensus passes over several
			// insertions form one class (see known_findings.json)
			for _, viol := range c.violations[nv:] {
				if viol.Property == "C03" {
					viol.Key = "batched-passes-disagree"
				}
			}
		}
		ld := ""
		if l := v.sn.app.log; len(l) > 0 {
			ld = l[len(l)-1].Digest
		}
		c.trace.add(fmt.Sprintf("variant:%s:%d:%s", kind, len(v.sn.app.log), ld))
		if storeKind == "badger" {
			c.encodingChecksBadger(v)
		}
		v.close()
		if c.failed("C03") != nil || c.failed("C15") != nil {
			return
		}
	}
}

// blockProp: a block that differs between two instances holding the same
// events is an agreement failure when the run is about C01.
func (c *Cluster) blockProp() string {
	if c.cfg.Profile == "C01" {
		return "C01"
	}
	return "C03"
}

// crossCheckRefModel compares the reference model that steers the synthetic
// histories (refmodel.go) with what the reference instance computed: rounds,
// witnesses and the fame the model decides. A difference is reported under the
// pseudo-property REFMODEL (an alert about the harness's model, never a verdict
// on a listed property).
func (c *Cluster) crossCheckRefModel(ref *instance) {
	if c.refDag == nil || ref.lateSetChange {
		return
	}
	d := c.refDag
	f := d.computeFame(int(hg.COIN_ROUND_FREQ), refMiddleBit)
	for id, hsh := range d.hash {
		fx, ok := ref.facts(hsh)
		if !ok {
			continue
		}
		if fx.round != d.round[id] || fx.witness != d.witness[id] {
			c.violate("REFMODEL", "model", "round-or-witness", "event %s: model round %d witness %v, implementation round %d witness %v", short(hsh), d.round[id], d.witness[id], fx.round, fx.witness)
			return
		}
		if mf, ok := f.fame[id]; ok && fx.fame != 0 {
			if (mf == 1) != (fx.fame == 1) {
				c.violate("REFMODEL", "model", "fame", "witness %s (round %d): model decides famous=%v, implementation %v", short(hsh), d.round[id], mf == 1, fx.fame == 1)
				return
			}
			c.stats.probe("refmodel-fame-agrees")
		}
	}
	c.stats.probe("refmodel-cross-checked")
}

// nodeViewOrder returns the events of the record in the order in which one
// full-history node of the finished run inserted them (by its topological
// index), followed by the events it never received. nil if no node qualifies.
func (c *Cluster) nodeViewOrder(r *RNG, base []*DagEvent) []*DagEvent {
	cands := []*SimNode{}
	for _, n := range c.nodes {
		if n.running() && !n.ffDone && !n.isObserver && !n.byz && n.storeKind == "inmem" && n.epoch == 0 {
			cands = append(cands, n)
		}
	}
	if len(cands) == 0 {
		return nil
	}
	n := cands[r.Intn(len(cands))]
	store := n.core().Hashgraph().Store
	type ti struct {
		e *DagEvent
		t int
	}
	have := []ti{}
	seen := map[int]bool{}
	in := map[string]bool{}
	for _, e := range base {
		ev, err := store.GetEvent(e.Hash)
		if err != nil {
			continue
		}
		t := ev.SimTopologicalIndex()
		if seen[t] {
			return nil // indexes not distinct (evicted / reloaded events): not a usable view
		}
		seen[t] = true
		have = append(have, ti{e, t})
		in[e.Hash] = true
	}
	if len(have) < len(base)/2 {
		return nil
	}
	sort.Slice(have, func(i, j int) bool { return have[i].t < have[j].t })
	out := make([]*DagEvent, 0, len(base))
	placed := map[string]bool{}
	for _, h := range have {
		// the node's order must be a valid order of the record
		for _, p := range []string{h.e.SelfP, h.e.OtherP} {
			if p != "" && c.dag.events[p] != nil && !placed[p] {
				return nil
			}
		}
		out = append(out, h.e)
		placed[h.e.Hash] = true
	}
	for _, e := range c.dag.randomTopo(r, base, nil) {
		if !in[e.Hash] {
			out = append(out, e)
		}
	}
	c.stats.probe("dagreplay-node-view-order")
	return out
}

// divide runs DivideRounds only (rounds, witnesses, Lamport timestamps).
func (in *instance) divide() {
	if in.err != nil {
		return
	}
	if err := in.h.DivideRounds(); err != nil {
		in.err = fmt.Errorf("divide rounds: %v", err)
	}
}

// latePass runs the passes that follow DivideRounds.
func (in *instance) latePass() {
	if in.err != nil {
		return
	}
	for _, f := range []func() error{in.h.DecideFame, in.h.DecideRoundReceived, in.h.ProcessDecidedRounds, in.h.ProcessSigPool} {
		if err := f(); err != nil {
			in.err = fmt.Errorf("consensus pass: %v", err)
			return
		}
	}
	in.noteSetChanges()
}

// heldWitnessInsert feeds base to v in creation order, except that one witness
// w of the reference (and its descendants) is held back until v has decided
// w's round without it while an earlier round is still pending; failing that,
// until w's round is decided at all; failing that, to the end. Returns the
// order actually used.
func (c *Cluster) heldWitnessInsert(r *RNG, ref, v *instance, base []*DagEvent) []*DagEvent {
	cands := []*DagEvent{}
	maxRound := 0
	for _, e := range base {
		if f, ok := ref.facts(e.Hash); ok && f.round > maxRound {
			maxRound = f.round
		}
	}
	for _, e := range base {
		if f, ok := ref.facts(e.Hash); ok && f.witness && f.round >= 1 && f.round <= maxRound-2 {
			cands = append(cands, e)
		}
	}
	if len(c.refQueued) > 0 {
		// witnesses of rounds that waited, decided, behind an open round
		q := []*DagEvent{}
		for _, e := range cands {
			if f, _ := ref.facts(e.Hash); c.refQueued[f.round] {
				q = append(q, e)
			}
		}
		if len(q) > 0 {
			cands = q
			c.stats.probe("heldwitness-candidate-of-a-queued-round")
		}
	}
	if len(cands) == 0 {
		for _, e := range base {
			v.insert(e)
		}
		return base
	}
	// prefer witnesses the rest of the network goes on without for a long time
	// (events created later that do not descend from them)
	type scored struct {
		e    *DagEvent
		free int
	}
	best := []scored{}
	for _, cand := range cands {
		d := map[string]bool{cand.Hash: true}
		free := 0
		seen := false
		for _, e := range base {
			if e == cand {
				seen = true
				continue
			}
			if d[e.SelfP] || d[e.OtherP] {
				d[e.Hash] = true
			} else if seen {
				free++
			}
		}
		best = append(best, scored{cand, free})
	}
	sort.SliceStable(best, func(i, j int) bool { return best[i].free > best[j].free })
	if len(best) > 4 {
		best = best[:4]
	}
	pick := best[r.Intn(len(best))]
	w := pick.e
	c.stats.probeMax("heldwitness-independent-later-events-max", pick.free)
	fw, _ := ref.facts(w.Hash)
	desc := map[string]bool{w.Hash: true}
	held := []*DagEvent{}
	used := []*DagEvent{}
	released := false
	release := func() {
		released = true
		for _, h := range held {
			v.insert(h)
			used = append(used, h)
		}
		held = nil
	}
	for _, e := range base {
		if !released && (desc[e.Hash] || desc[e.SelfP] || desc[e.OtherP]) {
			desc[e.Hash] = true
			held = append(held, e)
			continue
		}
		v.insert(e)
		used = append(used, e)
		if released || v.err != nil {
			continue
		}
		decided, earlierOpen := false, false
		for _, pr := range v.h.PendingRounds.GetOrderedPendingRounds() {
			if pr.Index < fw.round && !pr.Decided {
				earlierOpen = true
			}
			if pr.Index == fw.round && pr.Decided {
				decided = true
			}
		}
		if decided && earlierOpen {
			c.stats.probe("heldwitness-round-decided-behind-an-open-round")
			release()
		} else if decided && r.Bool(0.15) {
			c.stats.probe("heldwitness-round-decided")
			release()
		}
	}
	if !released {
		release()
	}
	return used
}

// checkFairContinuation (C06 over a synthetic history): the history ends with
// synFairCycles cycles of fair gossip among all validators of a static set;
// every event created before them must by then have a round-received.
func (c *Cluster) checkFairContinuation(ref *instance) {
	if c.synFairFrom <= 0 || c.synFairCycles < deepFairCycles || ref.lateSetChange || c.stats.Probes["validator-set-change"] > 0 {
		return
	}
	c.stats.probe("c06-synthetic-fair-continuation-checked")
	maxDist := 0
	for i, e := range c.dag.order {
		if i >= c.synFairFrom {
			break
		}
		fx, ok := ref.facts(e.Hash)
		if !ok {
			continue
		}
		if fx.rr < 0 {
			c.violate("C06", "fair-continuation", "event-not-committed-after-fair-gossip", "synthetic history: event %s (creator %s index %d, round %d, witness %v, fame %d) has no round-received after %d cycles of fair gossip among all %d validators (last consensus round %v)", short(e.Hash), short(e.Creator), e.Index, fx.round, fx.witness, fx.fame, c.synFairCycles, len(c.nodes), ref.h.LastConsensusRound)
			return
		}
		if fx.witness && fx.rr-fx.round > maxDist {
			maxDist = fx.rr - fx.round
		}
	}
	c.stats.probeMax("c06-synthetic-round-received-distance-max", maxDist)
}

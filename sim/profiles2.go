package sim

import (
	"fmt"
	"os"
	"sort"

	_state "github.com/mosaicnetworks/babble/src/node/state"
)

func withMembership(cfg *RunConfig, r *RNG, p float64) {
	if r.Bool(p) {
		cfg.PJoin = 0.012
		cfg.PLeave = 0.007
		cfg.MaxJoins = r.Range(1, 3)
		cfg.MaxLeaves = r.Range(0, 2)
		cfg.Steps += 100
	}
}

func init() {
	profiles["C04"] = &profile{
		config: func(r *RNG, thorough bool) *RunConfig {
			cfg := baseConfig("C04", r, thorough)
			if rf := NewRNG(Mix(r.U64(), 0x66726d65)); rf.Bool(0.2) {
				// persistent nodes whose database now and then refuses the write of a frame
				cfg.PFrameErr = 0.1
				defer func() { mixStores(cfg, rf, 0.6) }()
			}
			if ra := NewRNG(Mix(r.U64(), 0x6173796e)); ra.Bool(0.3) {
				// overlapping gossips of one node (legs held back, lock gaps)
				cfg.PAsync = 0.1 + 0.3*ra.Float()
			}
			if cfg.N0 < 2 {
				cfg.N0 = 2
				cfg.Stores = []string{"inmem", "inmem"}
			}
			cfg.TxStyle = "unique"
			cfg.FairSuffix = r.Bool(0.5)
			withMembership(cfg, r, 0.2)
			if r.Bool(0.3) {
				// applications whose commit handler sometimes reports an error after
				// having applied the block
				cfg.PAppError = 0.05
			}
			if r.Bool(0.3) {
				// persistent nodes whose cache is smaller than the window of events in
				// flight: events are evicted between the pass that gives them their
				// round / Lamport timestamp and the creation of the frame, and are
				// re-read from the database without those derived fields
				mixStores(cfg, r, 0.7)
				cfg.BadgerCache = []int{30, 40, 60, 100}[r.Intn(4)]
				// (the consensus passes touch every undetermined event, which keeps
				// them in the cache: only stretches without progress - two validators
				// exchanging syncs among themselves - make the backlog outgrow it)
				cfg.ChattyPair = true
				if r.Bool(0.35) {
					// the backlog may outgrow the cache (expensive: every pass re-reads
					// the evicted events from the database - short runs, small networks)
					cfg.BacklogOverCache = true
					cfg.BadgerCache = []int{30, 40}[r.Intn(2)]
					if cfg.N0 > 4 {
						cfg.N0 = 4
						cfg.Stores = cfg.Stores[:4]
					}
					cfg.Stores[0] = "badger"
					cfg.Steps = r.Range(50, 110)
					cfg.PJoin, cfg.PLeave, cfg.MaxJoins, cfg.MaxLeaves = 0, 0, 0, 0
				} else {
					cfg.Steps += 60
				}
				if cfg.N0 >= 4 && r.Bool(0.5) {
					cfg.Straggler = 1 + r.Intn(cfg.N0)
					cfg.StragglerP = []float64{0.03, 0.1, 0.2}[r.Intn(3)]
					cfg.PSilence = 0
				}
			}
			return cfg
		},
		run: clusterRun,
	}
	profiles["C05"] = &profile{
		config: func(r *RNG, thorough bool) *RunConfig {
			cfg := baseConfig("C05", r, thorough)
			if rf := NewRNG(Mix(r.U64(), 0x66726d65)); rf.Bool(0.2) {
				// persistent nodes whose database now and then refuses the write of a frame
				cfg.PFrameErr = 0.1
				defer func() { mixStores(cfg, rf, 0.6) }()
			}
			cfg.PSubmit = 0.25 + 0.25*r.Float()
			cfg.FairSuffix = true
			if r.Bool(0.5) {
				cfg.PCommitSubmit = 0.3
			}
			if r.Bool(0.5) {
				// submissions between the legs of a node's own overlapping gossips
				cfg.PAsync = 0.1 + 0.4*r.Float()
			}
			mixStores(cfg, r, 0.2)
			if r.Bool(0.4) {
				cfg.PCrash = 0.01
			}
			withMembership(cfg, r, 0.25)
			if r.Bool(0.2) {
				// commit handlers that report an error after having applied the block:
				// the insertion of the event that triggered the commit still succeeds
				cfg.PAppError = 0.05
			}
			// (cfg.PStoreErr - transient write errors of a persistent node's database -
			// exists as a fault kind but is not part of any profile: C05 quantifies
			// over sync failures and truncations, and the unchanged tree does not
			// survive a refused database write - see DESIGN II.8)
			return cfg
		},
		run: clusterRun,
	}
	profiles["C06"] = &profile{
		config: func(r *RNG, thorough bool) *RunConfig {
			cfg := baseConfig("C06", r, thorough)
			cfg.FairSuffix = true
			cfg.CacheSize = 10000
			cfg.SuspendLimit = 100000
			cfg.PSilence *= 2
			if r.Bool(0.3) {
				cfg.PCrash = 0.008
			}
			withMembership(cfg, r, 0.3)
			if r.Bool(0.3) {
				// applications that submit follow-up transactions from inside the commit callback
				cfg.PCommitSubmit = 0.3
			}
			if r.Bool(0.4) {
				// a short lopsided prefix (one rarely scheduled validator, truncated
				// syncs), then the fair schedule: activity stops while the fame of some
				// witness is still open and later rounds are already decided
				cfg.N0 = []int{4, 4, 5}[r.Intn(3)]
				cfg.Stores = make([]string, cfg.N0)
				for i := range cfg.Stores {
					cfg.Stores[i] = "inmem"
				}
				cfg.Steps = r.Range(12, 60)
				if cfg.Steps > 24 && cfg.Steps%2 == 0 {
					// most of the tails that matter are very short: activity stops while
					// the first elections are still open
					cfg.Steps = 10 + cfg.Steps%15
				}
				cfg.Straggler = 1 + r.Intn(cfg.N0)
				cfg.StragglerP = []float64{0.03, 0.1, 0.2}[r.Intn(3)]
				cfg.StragglerListens = r.Bool(0.5)
				cfg.PSilence = 0
				cfg.PCrash = 0
				cfg.PJoin, cfg.PLeave, cfg.MaxJoins, cfg.MaxLeaves = 0, 0, 0, 0
				cfg.PSubmit = 0.25
			}
			if r3 := NewRNG(Mix(r.U64(), 0x736872)); r3.Bool(0.12) {
				// a small validator set shrinks (3 -> 2) while payload events are still
				// being created in the rounds before the change takes effect: events of
				// the old set's rounds are received in rounds of the new set
				cfg.N0 = 3
				cfg.Stores = []string{"inmem", "inmem", "inmem"}
				cfg.LeaveFirst = true
				cfg.MaxLeaves, cfg.MaxJoins = 1, 0
				cfg.PLeave, cfg.PJoin = 0.01, 0
				cfg.PSilence, cfg.PCrash, cfg.PPartition = 0, 0, 0
				cfg.PSubmit = 0.4
				cfg.Straggler = 0
				cfg.Steps = r3.Range(60, 140)
			}
			if r4 := NewRNG(Mix(r.U64(), 0x70726570)); r4.Bool(0.08) || os.Getenv("SIM_PREPARED_ONLY") != "" {
				// real persistent nodes bootstrapped from a database that holds a
				// synthetic history with a deep election open at its tail
				cfg.Prepared = true
				cfg.Synthetic = false
				cfg.PCommitSubmit = 0
				cfg.SyncLimit = 1000
				return cfg
			}
			if r2 := NewRNG(Mix(r.U64(), 0x64656570)); r2.Bool(0.15) {
				// a synthetic history whose longest election survives one or two coin
				// rounds (coin bits ground), then fair gossip among all validators:
				// everything created before must have been committed by every view
				cfg.Synthetic = true
				cfg.Variants = 2
			}
			return cfg
		},
		run: func(c *Cluster, spec *runSpec) {
			if c.cfg.Prepared {
				c.preparedRun(spec)
				return
			}
			if c.cfg.Synthetic {
				c.synthRun(spec)
				return
			}
			c.finalHook = c.checkC06
			clusterRun(c, spec)
		},
	}
	profiles["C09"] = &profile{
		config: func(r *RNG, thorough bool) *RunConfig {
			cfg := baseConfig("C09", r, thorough)
			if rl := NewRNG(Mix(r.U64(), 0x6c6f7765)); rl.Bool(0.15) {
				// peers files that spell some keys in lower case with a 0x prefix
				cfg.LowerKeys = true
			}
			if ra := NewRNG(Mix(r.U64(), 0x6173796e)); ra.Bool(0.3) {
				// overlapping gossips of one node (legs held back, lock gaps)
				cfg.PAsync = 0.1 + 0.3*ra.Float()
			}
			if cfg.N0 < 2 {
				cfg.N0 = 3
				cfg.Stores = []string{"inmem", "inmem", "inmem"}
			}
			mixStores(cfg, r, 0.2)
			withMembership(cfg, r, 0.5)
			if r.Bool(0.6) {
				// a Byzantine validator gossips adversarial signature payloads
				if cfg.N0 < 4 {
					cfg.N0 = 4
					cfg.Stores = []string{"inmem", "inmem", "inmem", "inmem"}
				}
				cfg.Byz = 1
				cfg.PByz = 0.08
				cfg.PSilence = 0
			} else if r.Bool(0.5) {
				// a small network that grows a lot: the signature thresholds of the
				// later rounds differ from those of the first (1 -> 3, 2 -> 6, 3 -> 6 ...)
				cfg.N0 = []int{1, 1, 2, 3}[r.Intn(4)]
				cfg.Stores = make([]string, cfg.N0)
				for i := range cfg.Stores {
					cfg.Stores[i] = "inmem"
				}
				cfg.PJoin = 0.04
				cfg.PLeave = 0
				cfg.MaxJoins = r.Range(2, 5)
				cfg.MaxLeaves = 0
				cfg.PSilence = 0
				cfg.Steps += 150
			}
			if r.Bool(0.2) {
				// blocks the application refused (commit handler reports an error)
				cfg.PAppError = 0.05
			}
			return cfg
		},
		run: func(c *Cluster, spec *runSpec) {
			c.byzHandler = c.byzSigStep
			c.byzGen = func(g *genState) *Step {
				hs := c.liveBabbling()
				if len(hs) == 0 || c.byzNode() == nil {
					return nil
				}
				return &Step{Op: "byz", Kind: "sigforge", A: hs[c.gen.Intn(len(hs))].idx, N: c.gen.Intn(len(sigForgeOps)), B: c.gen.Intn(2)}
			}
			clusterRun(c, spec)
		},
	}
	profiles["C10"] = &profile{
		config: func(r *RNG, thorough bool) *RunConfig {
			cfg := baseConfig("C10", r, thorough)
			if rl := NewRNG(Mix(r.U64(), 0x6c6f7765)); rl.Bool(0.15) {
				// peers files that spell some keys in lower case with a 0x prefix
				cfg.LowerKeys = true
			}
			if ra := NewRNG(Mix(r.U64(), 0x6173796e)); ra.Bool(0.3) {
				// overlapping gossips of one node (legs held back, lock gaps)
				cfg.PAsync = 0.1 + 0.3*ra.Float()
			}
			if cfg.N0 < 2 {
				cfg.N0 = 2
				cfg.Stores = []string{"inmem", "inmem"}
			}
			if cfg.N0 > 5 {
				cfg.N0 = 5
				cfg.Stores = cfg.Stores[:5]
			}
			cfg.Steps += 150
			cfg.PJoin = 0.02
			cfg.PLeave = 0.012
			cfg.MaxJoins = r.Range(1, 4)
			cfg.MaxLeaves = r.Range(0, 3)
			cfg.FairSuffix = r.Bool(0.5)
			mixStores(cfg, r, 0.3)
			if r.Bool(0.2) {
				cfg.Policy = fmt.Sprintf("refuse:%d", cfg.N0) // the first joiner is refused by the application
			}
			return cfg
		},
		run: clusterRun,
	}
	profiles["C18"] = &profile{
		config: func(r *RNG, thorough bool) *RunConfig {
			cfg := baseConfig("C18", r, thorough)
			if cfg.N0 < 3 {
				cfg.N0 = 4
				cfg.Stores = []string{"inmem", "inmem", "inmem", "inmem"}
			}
			if r.Bool(0.3) {
				// two or three colluding liars need seven to ten validators
				cfg.N0 = []int{7, 7, 8, 10}[r.Intn(4)]
				cfg.Stores = make([]string, cfg.N0)
				for i := range cfg.Stores {
					cfg.Stores[i] = "inmem"
				}
			}
			cfg.Liars = maxSilent(cfg.N0)
			cfg.PClock = 0.05
			cfg.PAdvance = 0.08
			return cfg
		},
		run: clusterRun,
	}
}

// checkC06: bounded liveness. After the fair suffix (all faults stopped, the
// silent/crashed minority stays as it is) every live validator must be idle,
// hold the same chain, and everything accepted by a live node is committed.
func (c *Cluster) checkC06() {
	if !c.cfg.FairSuffix || !c.fairMode {
		return
	}
	live := c.liveBabbling()
	nv := len(c.vs.latest())
	liveValidators := 0
	for _, n := range live {
		if contains(c.vs.latest(), n.pubHex) {
			liveValidators++
		}
	}
	// precondition of the property: more than two thirds of the current
	// validators take part - for every validator set still in play, i.e. the one
	// of the earliest undecided round of any live node and all later ones
	minLCR := 1 << 30
	for _, n := range live {
		l := n.node.GetLastConsensusRoundIndex()
		if l < minLCR {
			minLCR = l
		}
	}
	if len(live) == 0 {
		c.stats.probe("c06-precondition-not-met")
		return
	}
	sets := [][]string{c.vs.at(minLCR)}
	for _, r := range c.vs.rounds {
		if r > minLCR {
			sets = append(sets, c.vs.sets[r])
		}
	}
	for _, set := range sets {
		k := 0
		for _, n := range live {
			if contains(set, n.pubHex) {
				k++
			}
		}
		if 3*k <= 2*len(set) {
			c.stats.probe("c06-precondition-not-met")
			return
		}
	}
	for _, n := range c.nodes {
		if n.stalled {
			c.stats.probe("c06-stalled-node-present")
			return
		}
	}
	c.stats.probe("c06-liveness-evaluated")
	if c.fairQuiescentAt == 0 {
		if c.fairCount < c.fairBound() {
			return // the suffix was not run to its bound (truncated schedule)
		}
		busy := []int{}
		for _, n := range live {
			if n.core().Busy() {
				busy = append(busy, n.idx)
			}
		}
		if orphan := c.onlyOrphansKeepBusy(live); orphan != "" {
			c.violate("C06", "bounded-liveness", "orphan-event-never-referenced", "after %d fair all-pairs cycles the %d live validators (of %d) never return to idle: %s is held by live nodes but is not an ancestor of any live node's head, so no witness will ever see it and it is never committed; %s", c.fairBound(), liveValidators, nv, orphan, c.describe())
			return
		}
		c.violate("C06", "bounded-liveness", "not-idle-after-fair-suffix", "after %d fair all-pairs cycles among %d live validators (of %d) nodes %v are still busy or a membership request is still pending; %s", c.fairBound(), liveValidators, nv, busy, c.describe())
		return
	}
	// identical chains among live full nodes
	last := -2
	for _, n := range live {
		l := n.node.GetLastBlockIndex()
		if last == -2 {
			last = l
		} else if l != last {
			c.violate("C06", "same-chain", "idle-with-different-chains", "all live nodes are idle but node %d is at block %d while another is at %d", n.idx, l, last)
			return
		}
	}
	// every event with payload held by a live node is committed
	for _, n := range live {
		h := n.core().Hashgraph()
		for _, hash := range h.UndeterminedEvents {
			ev, err := h.Store.GetEvent(hash)
			if err != nil {
				continue
			}
			if len(ev.Transactions()) > 0 || len(ev.InternalTransactions()) > 0 {
				c.violate("C06", "everything-commits", "payload-event-uncommitted", "node %d is idle but still holds undetermined event %s carrying payload", n.idx, short(hash))
				return
			}
		}
	}
	// every transaction accepted by a node that kept running is committed
	liveAccepted := map[string]int{}
	for _, n := range live {
		if n.stalled {
			continue
		}
		for _, tx := range n.acceptedTxs {
			liveAccepted[string(tx)]++
		}
	}
	keys := make([]string, 0, len(liveAccepted))
	for k := range liveAccepted {
		keys = append(keys, k)
	}
	sort.Strings(keys)
	for _, k := range keys {
		if com := c.ledger.committed[k]; com < liveAccepted[k] {
			c.violate("C06", "everything-commits", "accepted-transaction-never-committed", "all live nodes are idle after the fair suffix, but transaction %x, accepted %d time(s) by nodes that kept running, is committed %d time(s)", clip([]byte(k), 24), liveAccepted[k], com)
			return
		}
	}
	_ = _state.Babbling
}

// onlyOrphansKeepBusy: returns a description of an orphan event if the only
// reason the live nodes are not idle is a payload-carrying (or first) event
// that no live node's head descends from.
func (c *Cluster) onlyOrphansKeepBusy(live []*SimNode) string {
	c.harvestAll()
	for _, t := range c.tasks {
		if !t.done && t.n.running() && !t.n.silent {
			holder := t.via
			if holder == nil {
				holder = t.n
			}
			if holder.running() && !holder.silent {
				return ""
			}
		}
	}
	found := ""
	for _, n := range live {
		core := n.core()
		h := core.Hashgraph()
		if len(core.TransactionPool()) > 0 || len(core.InternalTransactionPool()) > 0 || len(core.SelfBlockSignatures()) > 0 {
			return ""
		}
		if h.LastConsensusRound != nil && *h.LastConsensusRound < core.TargetRound() {
			return ""
		}
		if h.PendingLoadedEvents == 0 {
			continue
		}
		for _, x := range h.UndeterminedEvents {
			ev, err := h.Store.GetEvent(x)
			if err != nil || !ev.IsLoaded() {
				continue
			}
			// is x an ancestor of some live node's head?
			linked := false
			for _, m := range live {
				if hd := m.core().Head(); hd != "" && c.dag.isAncestor(x, hd) {
					linked = true
					break
				}
			}
			if linked {
				return ""
			}
			cr := c.byPub[ev.Creator()]
			ci := -1
			if cr != nil {
				ci = cr.idx
			}
			found = fmt.Sprintf("event #%d of node %d (%d transactions)", ev.Index(), ci, len(ev.Transactions()))
		}
	}
	return found
}

func init() {
	profiles["C11"] = &profile{
		config: func(r *RNG, thorough bool) *RunConfig {
			cfg := baseConfig("C11", r, thorough)
			cfg.N0 = []int{2, 3, 3, 4, 4}[r.Intn(5)]
			cfg.Stores = make([]string, cfg.N0)
			for i := range cfg.Stores {
				cfg.Stores[i] = "badger"
				if i > 0 && r.Bool(0.25) {
					cfg.Stores[i] = "inmem"
				}
			}
			if thorough {
				cfg.Steps = r.Range(40, 200)
			} else {
				cfg.Steps = r.Range(30, 120)
			}
			cfg.PCrash = 0.03
			cfg.TornP = 0.5
			cfg.Shadow = 30
			if r.Bool(0.2) {
				// long lives before the kill: Bootstrap replays the events in batches
				// of 100 and processes the signature pool once per batch
				cfg.Steps = r.Range(200, 380)
				cfg.PCrash = 0.008
				cfg.Shadow = 12
				if cfg.N0 >= 3 && r.Bool(0.6) {
					// the persistent node 0 lags: it receives other validators' block
					// signatures before it commits the blocks itself
					cfg.Straggler = 1
					cfg.StragglerP = []float64{0.1, 0.2, 0.3}[r.Intn(3)]
					cfg.StragglerListens = r.Bool(0.5)
				}
			}
			cfg.FairSuffix = r.Bool(0.5)
			withMembership(cfg, r, 0.3)
			return cfg
		},
		run: func(c *Cluster, spec *runSpec) {
			c.installShadowSampling()
			clusterRun(c, spec)
		},
	}
}

// installShadowSampling arms the crash-point enumeration of C11: at sampled
// store points of every persistent node - and at every store point of a few
// whole steps - the on-disk image is bootstrapped by a throw-away node and the
// recovery oracle evaluated, without disturbing the run.
func (c *Cluster) installShadowSampling() {
	budget := c.cfg.Shadow
	// steps during which every store point is checked
	r := NewRNG(Mix(c.seed, 0x73686477))
	full := map[int]bool{}
	for i := 0; i < 3; i++ {
		full[r.Range(1, maxInt(c.cfg.Steps, 2))] = true
	}
	perStep := 0
	lastStep := -1
	c.storePointHook = func(n *SimNode, kind, phase string) {
		if n.ffDone || budget <= 0 {
			return
		}
		if c.stepNo != lastStep {
			lastStep = c.stepNo
			perStep = 0
		}
		pr := NewRNG(Mix(c.seed^0x7370, uint64(n.idx)<<40|uint64(n.storePoints)))
		take := false
		if full[c.stepNo] && perStep < 40 {
			take = true
		} else if pr.Bool(0.01) {
			take = true
		}
		if !take {
			return
		}
		perStep++
		budget--
		torn := 0.0
		if phase == "post" && pr.Bool(c.cfg.TornP) {
			torn = 0.05 + 0.9*pr.Float()
		}
		c.shadowBootstrap(n, torn, phase)
	}
}

func init() {
	profiles["C13"] = &profile{
		config: func(r *RNG, thorough bool) *RunConfig {
			cfg := baseConfig("C13", r, thorough)
			if rl := NewRNG(Mix(r.U64(), 0x6c6f7765)); rl.Bool(0.15) {
				// peers files that spell some keys in lower case with a 0x prefix
				cfg.LowerKeys = true
			}
			cfg.N0 = []int{2, 3, 3, 4, 4, 5}[r.Intn(6)]
			cfg.Stores = make([]string, cfg.N0)
			for i := range cfg.Stores {
				cfg.Stores[i] = "inmem"
			}
			mixStores(cfg, r, 0.2)
			cfg.Steps += 150
			cfg.FastSyncLate = true
			cfg.PReFF = 0.03
			cfg.PSilence = 0.04
			cfg.PJoin = 0.02
			cfg.PLeave = 0.008
			cfg.MaxJoins = r.Range(1, 3)
			cfg.MaxLeaves = r.Range(0, 2)
			cfg.FairSuffix = r.Bool(0.6)
			cfg.PSubmit = 0.3
			if r2 := NewRNG(Mix(r.U64(), 0x6c667374)); r2.Bool(0.25) {
				// a validator leaves early; the joiners and lagging nodes of the rest of
				// the run reset themselves from anchors whose frames still carry a Root
				// of the departed participant, and go on computing frames of their own
				cfg.LeaveFirst = true
				cfg.N0 = []int{4, 4, 5}[r2.Intn(3)]
				cfg.Stores = make([]string, cfg.N0)
				for i := range cfg.Stores {
					cfg.Stores[i] = "inmem"
				}
				cfg.MaxLeaves = 1
				cfg.MaxJoins = r2.Range(1, 3)
				cfg.PJoin = 0.04
				cfg.PReFF = 0.05
				cfg.Steps += 120
				cfg.FairSuffix = true
				return cfg
			}
			if r.Bool(0.35) {
				// persistent nodes that fast-forward although their database already
				// holds history (lagging validators that reset themselves, joiners
				// that do so a second time)
				mixStores(cfg, r, 0.6)
				cfg.PJoinerBadger = 0.7
				cfg.PReFF = 0.08
				if r.Bool(0.6) {
					// stretches without a quorum: validators pile up events inside one
					// round, the roots of later frames then hold no witness at all
					cfg.Quorumless = true
					cfg.PSilence = 0.07
				}
				if r.Bool(0.7) {
					cfg.ChattyPair = true
				}
			}
			return cfg
		},
		run: clusterRun,
	}
}

func init() {
	dagProfile := func(name string) *profile {
		return &profile{
			config: func(r *RNG, thorough bool) *RunConfig {
				cfg := baseConfig(name, r, thorough)
				if cfg.N0 > 6 {
					cfg.N0 = 6
					cfg.Stores = cfg.Stores[:6]
				}
				cfg.PSubmit = 0.3
				cfg.NilTx = true
				cfg.Variants = 6
				if thorough {
					cfg.Variants = 14
				}
				withMembership(cfg, r, 0.3)
				if cfg.N0 >= 4 && r.Bool(0.5) {
					// a rarely scheduled validator: late witnesses, split votes, rounds
					// whose fame is decided piecemeal
					cfg.Straggler = 1 + r.Intn(cfg.N0)
					cfg.StragglerP = []float64{0.03, 0.06, 0.1, 0.2}[r.Intn(4)]
					cfg.PSilence = 0
				}
				if name == "C03" && r.Bool(0.4) {
					cfg.Synthetic = true
				}
				if name == "C15" {
					mixStores(cfg, r, 0.3)
					if !cfg.Synthetic && r.Bool(0.4) {
						// every request travels through babble's real NetworkTransport
						cfg.Wire = true
					}
					if !cfg.Synthetic && r.Bool(0.4) {
						// blocks and frames travel too: joiners and lagging nodes
						// fast-forward from several honest peers with different anchors
						cfg.FastSyncLate = true
						cfg.PReFF = 0.05
						cfg.PJoin = 0.02
						cfg.MaxJoins = 2
						cfg.PSilence = 0.04
						cfg.Steps += 80
					}
				}
				return cfg
			},
			run: func(c *Cluster, spec *runSpec) {
				if c.cfg.Synthetic {
					c.synthRun(spec)
					return
				}
				c.genesis()
				c.drive(spec)
				c.finalChecks(spec)
				c.dagReplay(c.cfg.Variants)
			},
		}
	}
	profiles["C03"] = dagProfile("C03")
	profiles["C15"] = dagProfile("C15")
}

func init() {
	profiles["C16"] = &profile{
		config: func(r *RNG, thorough bool) *RunConfig {
			cfg := baseConfig("C16", r, thorough)
			cfg.N0 = []int{1, 2, 3, 3, 4}[r.Intn(5)]
			cfg.Stores = make([]string, cfg.N0)
			for i := range cfg.Stores {
				cfg.Stores[i] = "inmem"
			}
			cfg.PSubmit = 0.3
			withMembership(cfg, r, 0.3)
			if cfg.N0 >= 2 && r.Bool(0.5) {
				// persistent nodes that are killed / shut down and restarted with
				// bootstrap, keep running, and are restarted again: what they wrote in
				// every one of their lives must be in the database (write-through check)
				for i := 1; i < cfg.N0; i++ {
					if r.Bool(0.7) {
						cfg.Stores[i] = "badger"
					}
				}
				cfg.PCrash = 0.04
				cfg.BadgerCache = []int{0, 0, 100, 200}[r.Intn(4)]
				cfg.Steps += 60
				if r.Bool(0.6) {
					// persistent joiners: they commit the blocks that precede their
					// acceptance without signing them (another write path)
					cfg.PJoin = 0.03
					cfg.MaxJoins = 2
					cfg.PJoinerBadger = 0.8
					cfg.Steps += 60
				}
			}
			return cfg
		},
		run: func(c *Cluster, spec *runSpec) {
			// node 0 records every write it issues
			c.recordWrites = true
			c.stepHook = func(s *Step) {
				if c.stepNo%20 == 0 || s.Op == "restart" || s.Op == "cleanrestart" {
					c.checkDBMirrorAll()
				}
			}
			c.genesis()
			c.drive(spec)
			c.checkDBMirrorAll()
			c.finalChecks(spec)
			if c.recorder != nil && len(c.recorder.ops) > 0 {
				c.runStoreEngine(c.recorder.ops)
			}
		},
	}
}

func init() {
	// SYN: synthetic histories only (tuning / sensitivity experiments; not a registered check)
	profiles["SYN"] = &profile{
		config: func(r *RNG, thorough bool) *RunConfig {
			cfg := baseConfig("C01", r, thorough)
			cfg.Synthetic = true
			cfg.Variants = 6
			return cfg
		},
		run: func(c *Cluster, spec *runSpec) {
			c.synthRun(spec)
		},
	}
}

func init() {
	profiles["C20"] = &profile{
		config: func(r *RNG, thorough bool) *RunConfig {
			cfg := baseConfig("C20", r, thorough)
			cfg.N0 = 1
			cfg.Stores = []string{"inmem"}
			return cfg
		},
		run: func(c *Cluster, spec *runSpec) {
			c.runProxyEngine()
		},
	}
}

package sim

import (
	"sort"

	hg "github.com/mosaicnetworks/babble/src/hashgraph"
)

// VSModel is the validator-set replay model written from the text of C10:
// genesis set, modified in block order by exactly the accepted receipts of
// committed blocks, each change effective at round-received + 6.
type VSModel struct {
	rounds []int
	sets   map[int][]string // effective round -> ordered upper-case pub keys
	cause  map[int]int      // effective round -> block index that caused it
}

func newVSModel(genesis []string) *VSModel {
	m := &VSModel{sets: map[int][]string{}, cause: map[int]int{}}
	m.rounds = []int{0}
	m.sets[0] = append([]string{}, genesis...)
	m.cause[0] = -1
	return m
}

func (m *VSModel) latest() []string { return m.sets[m.rounds[len(m.rounds)-1]] }

func (m *VSModel) at(round int) []string {
	res := m.sets[m.rounds[0]]
	for _, r := range m.rounds {
		if r <= round {
			res = m.sets[r]
		} else {
			break
		}
	}
	return res
}

func contains(set []string, k string) bool {
	for _, x := range set {
		if x == k {
			return true
		}
	}
	return false
}

// apply folds one committed block (with its receipts) into the model. Returns
// true if the block changed the validator set.
func (m *VSModel) apply(b *hg.Block) bool {
	cur := append([]string{}, m.latest()...)
	changed := false
	for _, r := range b.InternalTransactionReceipts() {
		if !r.Accepted {
			continue
		}
		k := r.InternalTransaction.Body.Peer.PubKeyString()
		switch r.InternalTransaction.Body.Type {
		case hg.PEER_ADD:
			if !contains(cur, k) {
				cur = append(cur, k)
			}
			changed = true
		case hg.PEER_REMOVE:
			out := cur[:0:0]
			for _, x := range cur {
				if x != k {
					out = append(out, x)
				}
			}
			cur = out
			changed = true
		}
	}
	if !changed {
		return false
	}
	eff := b.RoundReceived() + 6
	if _, ok := m.sets[eff]; !ok {
		m.rounds = append(m.rounds, eff)
		sort.Ints(m.rounds)
	}
	m.sets[eff] = cur
	m.cause[eff] = b.Index()
	return true
}

// superMajority is the least integer strictly greater than 2n/3 (harness's own
// arithmetic, never PeerSet.SuperMajority).
func superMajority(n int) int { return (2*n)/3 + 1 }

// moreThanThird reports k > n/3 in exact integer arithmetic.
func moreThanThird(k, n int) bool { return 3*k > n }

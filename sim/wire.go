package sim

import (
	"fmt"
	"io"
	gonet "net"
	"testing/synctest"
	"time"

	"github.com/mosaicnetworks/babble/src/config"
	"github.com/mosaicnetworks/babble/src/net"
)

/*******************************************************************************
Wire mode: every request of a cluster run travels through babble's real
NetworkTransport - genericRPC, connection pool, sendRPC / decodeResponse on
the requester's side; Listen, handleConn, handleCommand on the target's side -
over in-memory connections (net.Pipe) handed out by a simulated StreamLayer.
The consumer channel of the target's transport is drained the way Node.Run
does it: one goroutine per RPC calling the real processRPC.

Inside the bubble at most one goroutine is runnable at any time: the requester
blocks on the pipe while the target's goroutines run, and vice versa; I/O
deadlines are timers of the fake clock.
*******************************************************************************/

type wireAddr string

func (a wireAddr) Network() string { return "sim" }
func (a wireAddr) String() string  { return string(a) }

// wireLayer implements net.StreamLayer for one endpoint.
type wireLayer struct {
	c      *Cluster
	addr   string
	accept chan gonet.Conn
	closed chan struct{}
	conns  []gonet.Conn
}

func (l *wireLayer) Accept() (gonet.Conn, error) {
	select {
	case conn := <-l.accept:
		return conn, nil
	case <-l.closed:
		return nil, fmt.Errorf("stream layer closed")
	}
}

func (l *wireLayer) Close() error {
	select {
	case <-l.closed:
	default:
		close(l.closed)
	}
	for _, c := range l.conns {
		c.Close()
	}
	l.conns = nil
	return nil
}

func (l *wireLayer) Addr() gonet.Addr      { return wireAddr(l.addr) }
func (l *wireLayer) AdvertiseAddr() string { return l.addr }

func (l *wireLayer) Dial(address string, timeout time.Duration) (gonet.Conn, error) {
	t := l.c.wires[address]
	if t == nil {
		return nil, errRefused
	}
	select {
	case <-t.layer.closed:
		return nil, errRefused
	default:
	}
	client, server := gonet.Pipe()
	select {
	case t.layer.accept <- server:
	default:
		client.Close()
		server.Close()
		return nil, errRefused
	}
	t.layer.conns = append(t.layer.conns, server)
	l.conns = append(l.conns, client)
	l.c.stats.probe("wire-connection-dialled")
	return client, nil
}

// wireEnd is one real NetworkTransport with its pump.
type wireEnd struct {
	layer *wireLayer
	trans *net.NetworkTransport
	done  chan struct{}
}

func (c *Cluster) newWireEnd(addr string, owner *SimNode) *wireEnd {
	conf := config.NewDefaultConfig()
	conf.LogLevel = "panic"
	conf.Logger().Logger.Out = io.Discard
	l := &wireLayer{c: c, addr: addr, accept: make(chan gonet.Conn, 64), closed: make(chan struct{})}
	w := &wireEnd{layer: l, done: make(chan struct{})}
	w.trans = net.NewNetworkTransport(l, 2, 2*time.Second, time.Duration(c.cfg.JoinTimeoutMs)*time.Millisecond+time.Second, conf.Logger())
	if owner != nil {
		go w.trans.Listen()
		nd := owner.node
		go func() {
			for {
				select {
				case rpc := <-w.trans.Consumer():
					// (Node.Run: one goroutine per request)
					go func() {
						defer func() {
							if r := recover(); r != nil {
								c.wirePanics = append(c.wirePanics, fmt.Sprintf("%v at %s", r, topFrame()))
								rpc.Respond(nil, fmt.Errorf("panic: %v", r))
							}
						}()
						nd.SimProcessRPC(rpc)
					}()
				case <-w.done:
					return
				}
			}
		}()
	}
	return w
}

func (w *wireEnd) close() {
	select {
	case <-w.done:
		return
	default:
	}
	close(w.done)
	w.trans.Close()
	w.layer.Close()
}

// openWire gives a (re)started node its transport endpoint.
func (c *Cluster) openWire(n *SimNode) {
	if !c.cfg.Wire {
		return
	}
	if n.wire != nil {
		n.wire.close()
	}
	n.wire = c.newWireEnd(n.addr, n)
	c.wires[n.addr] = n.wire
}

func (c *Cluster) closeWire(n *SimNode) {
	if n.wire != nil {
		n.wire.close()
		if c.wires[n.addr] == n.wire {
			delete(c.wires, n.addr)
		}
		n.wire = nil
	}
}

// wireDeliver sends the request through the requester's real transport.
func (c *Cluster) wireDeliver(from, target *SimNode, kind string, args interface{}, resp interface{}) error {
	src := c.anonWire
	if from != nil && from.wire != nil {
		src = from.wire
	}
	if src == nil {
		c.anonWire = c.newWireEnd("harness", nil)
		src = c.anonWire
	}
	c.stats.probe("wire-rpc")
	var err error
	switch kind {
	case "sync":
		req := &net.SyncRequest{}
		if e := jsonCopy(args, req); e != nil {
			return e
		}
		out := &net.SyncResponse{}
		err = src.trans.Sync(target.addr, req, out)
		if resp != nil {
			jsonCopy(out, resp)
		}
	case "eager":
		req := &net.EagerSyncRequest{}
		if e := jsonCopy(args, req); e != nil {
			return e
		}
		out := &net.EagerSyncResponse{}
		err = src.trans.EagerSync(target.addr, req, out)
		if resp != nil {
			jsonCopy(out, resp)
		}
	case "ff":
		req := &net.FastForwardRequest{}
		if e := jsonCopy(args, req); e != nil {
			return e
		}
		out := &net.FastForwardResponse{}
		err = src.trans.FastForward(target.addr, req, out)
		if resp != nil {
			jsonCopy(out, resp)
		}
	case "join":
		req := &net.JoinRequest{}
		if e := jsonCopy(args, req); e != nil {
			return e
		}
		out := &net.JoinResponse{}
		err = src.trans.Join(target.addr, req, out)
		if resp != nil {
			jsonCopy(out, resp)
		}
	default:
		return fmt.Errorf("unknown rpc kind %s", kind)
	}
	if len(c.wirePanics) > 0 {
		p := c.wirePanics[0]
		c.wirePanics = nil
		panic(fmt.Sprintf("panic in processRPC behind the transport: %s", p))
	}
	return err
}

// closeAllWires: end of run.
func (c *Cluster) closeAllWires() {
	for _, n := range c.nodes {
		c.closeWire(n)
	}
	if c.anonWire != nil {
		c.anonWire.close()
		c.anonWire = nil
	}
	synctest.Wait()
}

package sim

import (
	"crypto/sha256"
	"encoding/binary"
	"encoding/json"
	"fmt"

	hg "github.com/mosaicnetworks/babble/src/hashgraph"
	"github.com/mosaicnetworks/babble/src/node/state"
	"github.com/mosaicnetworks/babble/src/proxy"
)

// Delivery is one CommitBlock call as seen by the application.
type Delivery struct {
	Epoch    int      // incarnation of the node that delivered it
	Step     int      // scheduler step during which it was delivered
	Block    hg.Block // deep copy of the argument
	Resp     proxy.CommitResponse
	Digest   string // canonical digest of the body completed with the response
	Shadow   bool
	BodyRaw  []byte // marshalled body as delivered (before the response was filled in)
	AppError bool   // the application applied the block but the call returned an error: babble never saw the response
	Topo     int    // number of events the node had inserted when it committed this block (-1: unknown)
}

// SimApp is the simulator's deterministic application. It implements
// proxy.AppProxy directly.
type SimApp struct {
	c        *Cluster
	owner    *SimNode
	submitCh chan []byte

	state     []byte
	log       []*Delivery
	snapshots map[int][]byte
	states    []state.State
	restores  int
	epoch     int
	shadow    bool
	failNext  bool
}

func newSimApp(c *Cluster, owner *SimNode) *SimApp {
	return &SimApp{
		c:         c,
		owner:     owner,
		submitCh:  make(chan []byte),
		state:     []byte("genesis"),
		snapshots: map[int][]byte{},
	}
}

// resetState models an application whose state was reset before a bootstrap.
// The delivery log (the harness's durable memory) is kept.
func (a *SimApp) resetState(epoch int) {
	a.state = []byte("genesis")
	a.snapshots = map[int][]byte{}
	a.epoch = epoch
}

func (a *SimApp) SubmitCh() chan []byte { return a.submitCh }

func deepCopyBlock(b *hg.Block) hg.Block {
	raw, err := json.Marshal(b)
	if err != nil {
		panic(harnessError{fmt.Sprintf("marshal block: %v", err)})
	}
	var out hg.Block
	if err := json.Unmarshal(raw, &out); err != nil {
		panic(harnessError{fmt.Sprintf("unmarshal block: %v", err)})
	}
	if out.Signatures == nil {
		out.Signatures = map[string]string{}
	}
	return out
}

func nextState(prev []byte, b *hg.Block) []byte {
	h := sha256.New()
	h.Write(prev)
	var l [8]byte
	binary.BigEndian.PutUint64(l[:], uint64(b.Index()))
	h.Write(l[:])
	for _, tx := range b.Transactions() {
		binary.BigEndian.PutUint64(l[:], uint64(len(tx)))
		h.Write(l[:])
		h.Write(tx)
	}
	for _, itx := range b.InternalTransactions() {
		raw, _ := itx.Marshal()
		h.Write(raw)
	}
	return h.Sum(nil)
}

// CommitBlock implements proxy.AppProxy.
func (a *SimApp) CommitBlock(block hg.Block) (proxy.CommitResponse, error) {
	cp := deepCopyBlock(&block)
	bodyRaw, _ := cp.Body.Marshal()

	a.state = nextState(a.state, &cp)
	st := make([]byte, len(a.state))
	copy(st, a.state)
	a.snapshots[cp.Index()] = st

	receipts := []hg.InternalTransactionReceipt{}
	for _, itx := range cp.InternalTransactions() {
		it := itx
		if a.c.policyAccept(&it) {
			receipts = append(receipts, it.AsAccepted())
		} else {
			receipts = append(receipts, it.AsRefused())
		}
	}
	resp := proxy.CommitResponse{StateHash: st, InternalTransactionReceipts: receipts}

	full := cp
	full.Body.StateHash = st
	full.Body.InternalTransactionReceipts = receipts

	topo := -1
	if a.owner != nil && a.owner.node != nil && !a.shadow {
		func() {
			defer func() { recover() }()
			topo = a.owner.node.SimCore().Hashgraph().SimTopologicalCounter()
		}()
	}
	d := &Delivery{
		Topo:    topo,
		Epoch:   a.epoch,
		Step:    a.c.stepNo,
		Block:   cp,
		Resp:    resp,
		Digest:  bodyDigest(&full.Body),
		Shadow:  a.shadow,
		BodyRaw: bodyRaw,
	}
	// fault: the application did its work but the call reports an error (a
	// handler that fails after applying the block, a timeout on the way back)
	fail := !a.shadow && a.c.cfg.PAppError > 0 && len(cp.InternalTransactions()) == 0 && a.owner != nil && !a.owner.constructing && a.c.inner.Bool(a.c.cfg.PAppError)
	d.AppError = fail
	a.log = append(a.log, d)
	if !a.shadow {
		a.c.onDeliver(a.owner, d)
		a.maybeSubmitFromCallback(&cp)
	}
	if fail {
		a.c.stats.fault("application-commit-error")
		return proxy.CommitResponse{}, fmt.Errorf("application error while committing block %d", cp.Index())
	}
	return resp, nil
}

// GetSnapshot implements proxy.AppProxy.
func (a *SimApp) GetSnapshot(blockIndex int) ([]byte, error) {
	s, ok := a.snapshots[blockIndex]
	if !ok {
		return nil, fmt.Errorf("no snapshot for block %d", blockIndex)
	}
	out := make([]byte, len(s))
	copy(out, s)
	return out, nil
}

// Restore implements proxy.AppProxy.
func (a *SimApp) Restore(snapshot []byte) error {
	a.state = make([]byte, len(snapshot))
	copy(a.state, snapshot)
	a.restores++
	if !a.shadow {
		a.c.onRestore(a.owner, snapshot)
	}
	return nil
}

// OnStateChanged implements proxy.AppProxy.
func (a *SimApp) OnStateChanged(s state.State) error {
	a.states = append(a.states, s)
	return nil
}

// epochLog returns the deliveries of one incarnation.
func (a *SimApp) epochLog(epoch int) []*Delivery {
	res := []*Delivery{}
	for _, d := range a.log {
		if d.Epoch == epoch {
			res = append(res, d)
		}
	}
	return res
}

// bodyDigest is the canonical digest of a block body (all nine fields).
func bodyDigest(b *hg.BlockBody) string {
	type canon struct {
		Index         int
		RoundReceived int
		Timestamp     int64
		StateHash     []byte
		FrameHash     []byte
		PeersHash     []byte
		Transactions  [][]byte
		Internal      []hg.InternalTransaction
		Receipts      []hg.InternalTransactionReceipt
	}
	c := canon{b.Index, b.RoundReceived, b.Timestamp, nz(b.StateHash), nz(b.FrameHash), nz(b.PeersHash),
		b.Transactions, b.InternalTransactions, b.InternalTransactionReceipts}
	if c.Internal == nil {
		c.Internal = []hg.InternalTransaction{}
	}
	if c.Receipts == nil {
		c.Receipts = []hg.InternalTransactionReceipt{}
	}
	raw, err := json.Marshal(c)
	if err != nil {
		panic(harnessError{fmt.Sprintf("digest: %v", err)})
	}
	sum := sha256.Sum256(raw)
	return fmt.Sprintf("%x", sum[:12])
}

func nz(b []byte) []byte {
	if b == nil {
		return []byte{}
	}
	return b
}

// maybeSubmitFromCallback models an application that submits a transaction
// from inside its commit callback (the pools are refilled while the node is in
// the middle of creating a self-event or inserting events).
func (a *SimApp) maybeSubmitFromCallback(b *hg.Block) {
	c := a.c
	n := a.owner
	if c.cfg.PCommitSubmit <= 0 || n.constructing || n.node == nil || !n.started || n.crashed {
		return
	}
	if c.fairMode {
		// the fair suffix is about what was accepted before it: clients and
		// applications stop submitting
		return
	}
	if !c.inner.Bool(c.cfg.PCommitSubmit) {
		return
	}
	tx := []byte(fmt.Sprintf("cb-%d-%d-%d", n.idx, b.Index(), c.stepNo))
	n.node.SimCore().AddTransactionsRaw([][]byte{tx})
	c.ledger.submit(tx, n.idx, n.epoch, c.stepNo)
	n.acceptedTxs = append(n.acceptedTxs, tx)
	c.stats.probe("submit-from-commit-callback")
}

// simHandler lets a SimApp sit behind babble's real in-process proxy
// (proxy/inmem.InmemProxy), as an embedding application would.
type simHandler struct{ a *SimApp }

func (h *simHandler) CommitHandler(b hg.Block) (proxy.CommitResponse, error) {
	return h.a.CommitBlock(b)
}
func (h *simHandler) SnapshotHandler(i int) ([]byte, error) { return h.a.GetSnapshot(i) }
func (h *simHandler) RestoreHandler(snapshot []byte) ([]byte, error) {
	err := h.a.Restore(snapshot)
	return h.a.state, err
}
func (h *simHandler) StateChangeHandler(s state.State) error { return h.a.OnStateChanged(s) }

package sim

/*******************************************************************************
Reference model of virtual voting (rounds, witnesses, votes, fame decisions)
over an abstract fork-free DAG, written from the algorithm's definition with
true reachability instead of the incrementally maintained coordinates of the
implementation. It is used

  - to steer the synthetic histories of E2 towards fragile situations: a
    witness y that collects a lopsided but insufficient vote about x that is
    contrary to the decision the network eventually takes, with at least one
    real decider that does not descend from y. Two nodes that learn about y
    before / after the real decider then stress every threshold and every
    "decided stays decided" rule from both sides;
  - as the oracle of the fame part of the C10 quorum monitor (per-round sets).

The model never looks at the implementation's rounds or votes.
*******************************************************************************/

type refDag struct {
	n       int
	creator []int
	index   []int
	selfP   []int
	otherP  []int
	hash    []string
	byCI    [][]int   // creator -> index -> event id
	la      [][]int32 // event id -> creator -> highest ancestor index (-1: none); an event is its own ancestor
	round   []int
	witness []bool
	wits    [][]int // round -> witness ids (in creation order)
}

func newRefDag(n int) *refDag {
	return &refDag{n: n, byCI: make([][]int, n)}
}

func refSuperMajority(n int) int { return 2*n/3 + 1 }

// add appends an event (parents are event ids or -1) and computes its round
// and witness flag w.r.t. the static validator set {0..n-1}.
func (d *refDag) add(creator, selfP, otherP int, hash string) int {
	id := len(d.creator)
	idx := 0
	if selfP >= 0 {
		idx = d.index[selfP] + 1
	}
	d.creator = append(d.creator, creator)
	d.index = append(d.index, idx)
	d.selfP = append(d.selfP, selfP)
	d.otherP = append(d.otherP, otherP)
	d.hash = append(d.hash, hash)
	d.byCI[creator] = append(d.byCI[creator], id)
	la := make([]int32, d.n)
	for i := range la {
		la[i] = -1
	}
	for _, p := range []int{selfP, otherP} {
		if p >= 0 {
			for i, v := range d.la[p] {
				if v > la[i] {
					la[i] = v
				}
			}
		}
	}
	la[creator] = int32(idx)
	d.la = append(d.la, la)
	// round
	pr := -1
	for _, p := range []int{selfP, otherP} {
		if p >= 0 && d.round[p] > pr {
			pr = d.round[p]
		}
	}
	r := 0
	if pr >= 0 {
		r = pr
		ss := 0
		for _, w := range d.wits[pr] {
			if d.stronglySees(id, w) {
				ss++
			}
		}
		if ss >= refSuperMajority(d.n) {
			r = pr + 1
		}
	}
	d.round = append(d.round, r)
	wit := selfP < 0 || d.round[selfP] < r
	d.witness = append(d.witness, wit)
	if wit {
		for len(d.wits) <= r {
			d.wits = append(d.wits, nil)
		}
		d.wits[r] = append(d.wits[r], id)
	}
	return id
}

func (d *refDag) sees(y, x int) bool { return int(d.la[y][d.creator[x]]) >= d.index[x] }

// stronglySees: more than two thirds of the validators have an event on a
// path from w to y.
func (d *refDag) stronglySees(y, w int) bool {
	cnt := 0
	for c := 0; c < d.n; c++ {
		k := d.la[y][c]
		if k < 0 {
			continue
		}
		if d.sees(d.byCI[c][k], w) {
			cnt++
		}
	}
	return cnt >= refSuperMajority(d.n)
}

type refDecision struct {
	x, y int
	v    bool
	t    int
}

// refNear is a witness y whose vote about x is lopsided (one short of a
// decision) and contrary to the decision eventually taken, while at least one
// real decider does not descend from y.
type refNear struct {
	x, y, z int
	v       bool
	t       int
}

type refFame struct {
	fame     map[int]int // witness id -> 1 famous, -1 not famous (absent: undecided)
	deciders map[int][]refDecision
	nears    []refNear
	coin     map[int]bool // decisions that depended on a coin flip
}

// computeFame runs virtual voting over the whole DAG. coinFreq is the
// protocol's coin-round period; middle(hash) supplies the coin bit (nil: the
// witnesses whose fame depends on a coin are left undecided).
func (d *refDag) computeFame(coinFreq int, middle func(string) bool) *refFame {
	res := &refFame{fame: map[int]int{}, deciders: map[int][]refDecision{}, coin: map[int]bool{}}
	sm := refSuperMajority(d.n)
	type cand struct {
		y int
		v bool
		t int
	}
	for r := 0; r < len(d.wits); r++ {
		for _, x := range d.wits[r] {
			votes := map[int]bool{}
			tainted := false
			var lops []cand
		LOOP:
			for j := r + 1; j < len(d.wits); j++ {
				diff := j - r
				for _, y := range d.wits[j] {
					if diff == 1 {
						votes[y] = d.sees(y, x)
						continue
					}
					yays, nays := 0, 0
					for _, w := range d.wits[j-1] {
						if d.stronglySees(y, w) {
							if votes[w] {
								yays++
							} else {
								nays++
							}
						}
					}
					v, t := false, nays
					if yays >= nays {
						v, t = true, yays
					}
					if diff%coinFreq != 0 {
						votes[y] = v
						if t >= sm {
							res.deciders[x] = append(res.deciders[x], refDecision{x, y, v, t})
						} else if t >= sm-1 && !tainted {
							lops = append(lops, cand{y, v, t})
						}
					} else {
						if t >= sm {
							votes[y] = v
						} else if middle != nil {
							votes[y] = middle(d.hash[y])
							tainted = true
						} else {
							tainted = true
							break LOOP
						}
					}
				}
				if len(res.deciders[x]) > 0 {
					break
				}
			}
			ds := res.deciders[x]
			if len(ds) == 0 {
				continue
			}
			f := -1
			if ds[0].v {
				f = 1
			}
			res.fame[x] = f
			res.coin[x] = tainted
			for _, l := range lops {
				if l.v == ds[0].v {
					continue
				}
				for _, dz := range ds {
					if !d.sees(dz.y, l.y) {
						res.nears = append(res.nears, refNear{x, l.y, dz.y, l.v, l.t})
						break
					}
				}
			}
		}
	}
	return res
}

// ancestorsOf returns the set of ancestors of id (itself included).
func (d *refDag) ancestorsOf(id int) map[int]bool {
	out := map[int]bool{}
	var walk func(int)
	walk = func(e int) {
		if e < 0 || out[e] {
			return
		}
		out[e] = true
		walk(d.selfP[e])
		walk(d.otherP[e])
	}
	walk(id)
	return out
}

// refFromPlays builds the abstract DAG of a play list (same skipping rules as
// buildSynthDag). ids[i] is the event id of play i (-1: skipped).
func refFromPlays(n int, plays []synthPlay) (*refDag, []int) {
	d := newRefDag(n)
	heads := make([]int, n)
	for i := range heads {
		heads[i] = -1
	}
	ids := make([]int, len(plays))
	for i, p := range plays {
		ids[i] = -1
		op := -1
		if p.other >= 0 {
			op = heads[p.other]
			if op < 0 {
				continue
			}
		}
		if heads[p.creator] < 0 && op < 0 && len(d.byCI[p.creator]) > 0 {
			continue
		}
		id := d.add(p.creator, heads[p.creator], op, "")
		heads[p.creator] = id
		ids[i] = id
	}
	return d, ids
}

// gossipPlays: heterogeneous random gossip among n validators: every
// validator has its own activity rate, partners are drawn with a per-pair
// affinity, and now and then a validator goes quiet for a while. Unlike the
// ring of synthPlays nobody is guaranteed to see everybody, so witnesses
// strongly see different subsets of the previous round's witnesses.
func gossipPlays(r *RNG, n, events int) []synthPlay {
	rate := make([]float64, n)
	for i := range rate {
		rate[i] = []float64{1, 1, 1, 0.6, 0.35, 0.15}[r.Intn(6)]
	}
	aff := make([][]float64, n)
	for i := range aff {
		aff[i] = make([]float64, n)
		for j := range aff[i] {
			aff[i][j] = []float64{1, 1, 0.5, 0.2, 0.05}[r.Intn(5)]
		}
	}
	quietUntil := make([]int, n)
	plays := []synthPlay{}
	for i := 0; i < n; i++ {
		plays = append(plays, synthPlay{i, -1})
	}
	pick := func(w []float64) int {
		tot := 0.0
		for _, v := range w {
			tot += v
		}
		if tot <= 0 {
			return -1
		}
		x := r.Float() * tot
		for i, v := range w {
			x -= v
			if x < 0 {
				return i
			}
		}
		return len(w) - 1
	}
	w := make([]float64, n)
	for k := 0; k < events; k++ {
		if r.Bool(0.02) {
			quietUntil[r.Intn(n)] = k + r.Range(5, 40)
		}
		for i := range w {
			w[i] = rate[i]
			if quietUntil[i] > k {
				w[i] = 0
			}
		}
		a := pick(w)
		if a < 0 {
			continue
		}
		for i := range w {
			w[i] = aff[a][i]
			if i == a {
				w[i] = 0
			}
		}
		b := pick(w)
		if b < 0 {
			continue
		}
		plays = append(plays, synthPlay{a, b})
	}
	return plays
}

package sim

/*******************************************************************************
Reference model of virtual voting (rounds, witnesses, votes, fame decisions)
over an abstract fork-free DAG, written from the algorithm's definition with
true reachability instead of the incrementally maintained coordinates of the
implementation. It is used

  - to steer the synthetic histories of E2 towards fragile situations: a
    witness y that collects a lopsided but insufficient vote about x that is
    contrary to the decision the network eventually takes, with at least one
    real decider that does not descend from y. Two nodes that learn about y
    before / after the real decider then stress every threshold and every
    "decided stays decided" rule from both sides;
  - as the oracle of the fame part of the C10 quorum monitor (per-round sets).

The model never looks at the implementation's rounds or votes.
*******************************************************************************/

type refDag struct {
	n          int
	creator    []int
	index      []int
	selfP      []int
	otherP     []int
	hash       []string
	byCI       [][]int   // creator -> index -> event id
	la         [][]int32 // event id -> creator -> highest ancestor index (-1: none); an event is its own ancestor
	round      []int
	witness    []bool
	wits       [][]int // round -> witness ids (in creation order)
	deep       bool    // computeFame also checks the unanimity lemma and looks for conflicting decisions
	weakQuorum bool    // see computeFame
	coords     bool    // strongly-see as babble's event coordinates compute it (see coordCount)
	// members(r): validator set (creator ids) of round r; nil: everybody, always
	members func(r int) []int
	all     []int
	heads   []int // addPlays: current head per creator
}

// setOf returns the validator set of round r.
func (d *refDag) setOf(r int) []int {
	if d.members != nil {
		return d.members(r)
	}
	return d.all
}

func inSet(V []int, c int) bool {
	for _, v := range V {
		if v == c {
			return true
		}
	}
	return false
}

func newRefDag(n int) *refDag {
	all := make([]int, n)
	for i := range all {
		all[i] = i
	}
	return &refDag{n: n, byCI: make([][]int, n), coords: true, all: all}
}

func refSuperMajority(n int) int { return 2*n/3 + 1 }

// add appends an event (parents are event ids or -1) and computes its round
// and witness flag w.r.t. the static validator set {0..n-1}.
func (d *refDag) add(creator, selfP, otherP int, hash string) int {
	id := len(d.creator)
	idx := 0
	if selfP >= 0 {
		idx = d.index[selfP] + 1
	}
	d.creator = append(d.creator, creator)
	d.index = append(d.index, idx)
	d.selfP = append(d.selfP, selfP)
	d.otherP = append(d.otherP, otherP)
	d.hash = append(d.hash, hash)
	d.byCI[creator] = append(d.byCI[creator], id)
	la := make([]int32, d.n)
	for i := range la {
		la[i] = -1
	}
	for _, p := range []int{selfP, otherP} {
		if p >= 0 {
			for i, v := range d.la[p] {
				if v > la[i] {
					la[i] = v
				}
			}
		}
	}
	la[creator] = int32(idx)
	d.la = append(d.la, la)
	// round
	pr := -1
	for _, p := range []int{selfP, otherP} {
		if p >= 0 && d.round[p] > pr {
			pr = d.round[p]
		}
	}
	r := 0
	if pr >= 0 {
		r = pr
		ss := 0
		if pr < len(d.wits) {
			for _, w := range d.wits[pr] {
				if d.stronglySees(id, w) {
					ss++
				}
			}
		}
		if ss >= refSuperMajority(len(d.setOf(pr))) {
			r = pr + 1
		}
	}
	d.round = append(d.round, r)
	wit := (selfP < 0 || d.round[selfP] < r) && inSet(d.setOf(r), creator)
	d.witness = append(d.witness, wit)
	if wit {
		for len(d.wits) <= r {
			d.wits = append(d.wits, nil)
		}
		d.wits[r] = append(d.wits[r], id)
	}
	return id
}

func (d *refDag) sees(y, x int) bool { return int(d.la[y][d.creator[x]]) >= d.index[x] }

// stronglySees: more than two thirds of the validators have an event on a
// path from w to y.
func (d *refDag) stronglySees(y, w int) bool {
	return d.pathCount(y, w) >= refSuperMajority(len(d.setOf(d.round[w])))
}

// coordCount is pathCount as babble's event coordinates compute it: the walk
// that records "first descendant by p" on the ancestors of a new event stops
// at the first witness it updates, so an event w learns about its first
// descendant e by p only if no witness lies on w's creator's chain between w
// (exclusive) and e's last ancestor on that chain (inclusive).
func (d *refDag) coordCount(y, w int) int {
	q := d.creator[w]
	cnt := 0
	for _, c := range d.setOf(d.round[w]) {
		k := int(d.la[y][c])
		if k < 0 || !d.sees(d.byCI[c][k], w) {
			continue
		}
		// first event of c that descends from w
		i := k
		for i > 0 && d.sees(d.byCI[c][i-1], w) {
			i--
		}
		e := d.byCI[c][i]
		a := int(d.la[e][q])
		ok := true
		for t := d.index[w] + 1; t <= a; t++ {
			if d.witness[d.byCI[q][t]] {
				ok = false
				break
			}
		}
		if ok {
			cnt++
		}
	}
	return cnt
}

// pathCount: number of validators with an event on a path from w to y.
func (d *refDag) pathCount(y, w int) int {
	if d.coords {
		return d.coordCount(y, w)
	}
	cnt := 0
	for _, c := range d.setOf(d.round[w]) {
		k := d.la[y][c]
		if k < 0 {
			continue
		}
		if d.sees(d.byCI[c][k], w) {
			cnt++
		}
	}
	return cnt
}

type refDecision struct {
	x, y int
	v    bool
	t    int
}

// refNear is a witness y whose vote about x is lopsided (one short of a
// decision) and contrary to the decision eventually taken, while at least one
// real decider does not descend from y.
type refNear struct {
	x, y, z int
	v       bool
	t, ss   int
}

type refFame struct {
	fame      map[int]int // witness id -> 1 famous, -1 not famous (absent: undecided)
	deciders  map[int][]refDecision
	nears     []refNear
	coin      map[int]bool  // decisions that depended on a coin flip
	dissent   [][2]int      // (x, y): y votes against a decision taken in its own round (deep mode)
	weak      []refDecision // decisions on fewer votes than two thirds of the voters' set (set shrank between the rounds)
	conflicts [][3]int      // (x, y, z): y and z decide differently about x and z descends from no decider of y's round (deep mode)
	score     float64       // how close the history comes to a strong contrary vote (search gradient)
}

// computeFame runs virtual voting over the whole DAG. coinFreq is the
// protocol's coin-round period; middle(hash) supplies the coin bit (nil: the
// witnesses whose fame depends on a coin are left undecided).
func (d *refDag) computeFame(coinFreq int, middle func(string) bool) *refFame {
	res := &refFame{fame: map[int]int{}, deciders: map[int][]refDecision{}, coin: map[int]bool{}}
	type cand struct {
		y      int
		v      bool
		t, ss  int
		excess int // how firmly y strongly sees its most weakly seen minority voter
	}
	for r := 0; r < len(d.wits); r++ {
		for _, x := range d.wits[r] {
			votes := map[int]bool{}
			tainted := false
			decidedAt := -1
			var lops []cand
		LOOP:
			for j := r + 1; j < len(d.wits); j++ {
				diff := j - r
				// The votes are cast by the witnesses of round j-1: a decision needs more
				// than two thirds of that round's set (and of round j's). weakQuorum
				// (steering only) takes round j's set alone, which stops binding the
				// other witnesses of round j when the set shrinks between the rounds.
				smp := refSuperMajority(len(d.setOf(j - 1))) // also the strongly-see threshold
				sm := refSuperMajority(len(d.setOf(j)))
				if smp > sm && !d.weakQuorum {
					sm = smp
				}
				if decidedAt >= 0 {
					// deep mode, one round past the first decision: does a witness that
					// descends from no decider decide the opposite?
					v0 := res.deciders[x][0].v
					for _, z := range d.wits[j] {
						indep := true
						for _, dz := range res.deciders[x] {
							if d.sees(z, dz.y) {
								indep = false
							}
						}
						yays, nays := 0, 0
						for _, w := range d.wits[j-1] {
							if d.pathCount(z, w) >= smp {
								if votes[w] {
									yays++
								} else {
									nays++
								}
							}
						}
						against := nays
						if !v0 {
							against = yays
						}
						vv := yays >= nays
						if !indep || diff%coinFreq == 0 {
							continue
						}
						g := 8 + 3*float64(against)/float64(sm)
						if vv != v0 && maxInt(yays, nays) >= sm {
							res.conflicts = append(res.conflicts, [3]int{x, res.deciders[x][0].y, z})
							g = 30
						}
						if g > res.score {
							res.score = g
						}
					}
					break
				}
				for _, y := range d.wits[j] {
					if diff == 1 {
						votes[y] = d.sees(y, x)
						continue
					}
					yays, nays := 0, 0
					minYes, minNo := 99, 99
					for _, w := range d.wits[j-1] {
						if pc := d.pathCount(y, w); pc >= smp {
							if votes[w] {
								yays++
								if pc-smp < minYes {
									minYes = pc - smp
								}
							} else {
								nays++
								if pc-smp < minNo {
									minNo = pc - smp
								}
							}
						}
					}
					v, t := false, nays
					if yays >= nays {
						v, t = true, yays
					}
					if diff%coinFreq != 0 {
						votes[y] = v
						if t >= sm {
							res.deciders[x] = append(res.deciders[x], refDecision{x, y, v, t})
							if t < smp {
								res.weak = append(res.weak, refDecision{x, y, v, t})
							}
						} else if t >= 2 && !tainted {
							// a majority (or a tie) among the votes collected, short of the quorum
							ex := minNo
							if !v {
								ex = minYes
							}
							lops = append(lops, cand{y, v, t, yays + nays, ex})
						}
					} else {
						if t >= sm {
							votes[y] = v
						} else if middle != nil {
							votes[y] = middle(d.hash[y])
							tainted = true
						} else {
							tainted = true
							break LOOP
						}
					}
				}
				if len(res.deciders[x]) > 0 {
					if d.deep && !tainted {
						// unanimity lemma: once some witness of round j has decided v, every
						// witness of round j votes v, hence every later vote is v
						v0 := res.deciders[x][0].v
						for _, y := range d.wits[j] {
							if votes[y] != v0 {
								res.dissent = append(res.dissent, [2]int{x, y})
							}
						}
						for _, dz := range res.deciders[x] {
							if dz.v != v0 {
								res.dissent = append(res.dissent, [2]int{x, dz.y})
								res.conflicts = append(res.conflicts, [3]int{x, res.deciders[x][0].y, dz.y})
							}
						}
						// gradient: a decision taken on fewer votes than two thirds of the
						// voters' set, with dissenting witnesses beside it
						if len(res.weak) > 0 && res.weak[len(res.weak)-1].x == x {
							g := 5.0
							for _, y := range d.wits[j] {
								if votes[y] != v0 {
									g += 0.5
								}
							}
							if g > res.score {
								res.score = g
							}
						}
						decidedAt = j
						continue
					}
					break
				}
			}
			ds := res.deciders[x]
			// search gradient
			for _, l := range lops {
				sc := 1 + float64(l.t)/float64(l.ss)
				if l.ss == refSuperMajority(len(d.setOf(d.round[l.y]))) {
					sc += 0.2
				} else if l.excess < 99 {
					sc += 0.1 / float64(1+l.excess)
				}
				if len(ds) > 0 && l.v != ds[0].v {
					sc += 1.5
					for _, dz := range ds {
						if !d.sees(dz.y, l.y) {
							sc += 1.5
							break
						}
					}
				}
				if sc > res.score {
					res.score = sc
				}
			}
			if len(ds) == 0 {
				continue
			}
			f := -1
			if ds[0].v {
				f = 1
			}
			res.fame[x] = f
			res.coin[x] = tainted
			for _, l := range lops {
				if l.v == ds[0].v {
					continue
				}
				for _, dz := range ds {
					if !d.sees(dz.y, l.y) {
						res.nears = append(res.nears, refNear{x, l.y, dz.y, l.v, l.t, l.ss})
						break
					}
				}
			}
		}
	}
	return res
}

// ancestorsOf returns the set of ancestors of id (itself included).
func (d *refDag) ancestorsOf(id int) map[int]bool {
	out := map[int]bool{}
	var walk func(int)
	walk = func(e int) {
		if e < 0 || out[e] {
			return
		}
		out[e] = true
		walk(d.selfP[e])
		walk(d.otherP[e])
	}
	walk(id)
	return out
}

// refFromPlays builds the abstract DAG of a play list (same skipping rules as
// buildSynthDag). ids[i] is the event id of play i (-1: skipped).
func refFromPlays(n int, plays []synthPlay) (*refDag, []int) {
	d := newRefDag(n)
	heads := make([]int, n)
	for i := range heads {
		heads[i] = -1
	}
	ids := make([]int, len(plays))
	for i, p := range plays {
		ids[i] = -1
		op := -1
		if p.other >= 0 {
			op = heads[p.other]
			if op < 0 {
				continue
			}
		}
		if heads[p.creator] < 0 && op < 0 && len(d.byCI[p.creator]) > 0 {
			continue
		}
		id := d.add(p.creator, heads[p.creator], op, "")
		heads[p.creator] = id
		ids[i] = id
	}
	return d, ids
}

// gossipPlays: heterogeneous random gossip among n validators: every
// validator has its own activity rate, partners are drawn with a per-pair
// affinity, and now and then a validator goes quiet for a while. Unlike the
// ring of synthPlays nobody is guaranteed to see everybody, so witnesses
// strongly see different subsets of the previous round's witnesses.
func gossipPlays(r *RNG, n, events int) []synthPlay {
	rate := make([]float64, n)
	for i := range rate {
		rate[i] = []float64{1, 1, 1, 0.6, 0.35, 0.15}[r.Intn(6)]
	}
	aff := make([][]float64, n)
	for i := range aff {
		aff[i] = make([]float64, n)
		for j := range aff[i] {
			aff[i][j] = []float64{1, 1, 0.5, 0.2, 0.05}[r.Intn(5)]
		}
	}
	quietUntil := make([]int, n)
	plays := []synthPlay{}
	for i := 0; i < n; i++ {
		plays = append(plays, synthPlay{i, -1})
	}
	pick := func(w []float64) int {
		tot := 0.0
		for _, v := range w {
			tot += v
		}
		if tot <= 0 {
			return -1
		}
		x := r.Float() * tot
		for i, v := range w {
			x -= v
			if x < 0 {
				return i
			}
		}
		return len(w) - 1
	}
	w := make([]float64, n)
	for k := 0; k < events; k++ {
		if r.Bool(0.02) {
			quietUntil[r.Intn(n)] = k + r.Range(5, 40)
		}
		for i := range w {
			w[i] = rate[i]
			if quietUntil[i] > k {
				w[i] = 0
			}
		}
		a := pick(w)
		if a < 0 {
			continue
		}
		for i := range w {
			w[i] = aff[a][i]
			if i == a {
				w[i] = 0
			}
		}
		b := pick(w)
		if b < 0 {
			continue
		}
		plays = append(plays, synthPlay{a, b})
	}
	return plays
}

// strength orders fragile votes: a larger share of the collected votes first.
func (n refNear) strength() float64 {
	return float64(n.t) / float64(n.ss)
}

// climbPlays improves a play list by random local edits, keeping an edit when
// the reference model's search gradient does not decrease.
func climbPlays(r *RNG, n int, plays []synthPlay, iters int, coinFreq int, want func(*refFame) bool) ([]synthPlay, *refFame) {
	eval := func(p []synthPlay) *refFame {
		d, _ := refFromPlays(n, p)
		return d.computeFame(coinFreq, nil)
	}
	cur := append([]synthPlay{}, plays...)
	best := eval(cur)
	for it := 0; it < iters && !want(best); it++ {
		cand := mutatePlays(r, n, n, cur)
		f := eval(cand)
		if f.score >= best.score {
			cur, best = cand, f
		}
	}
	return cur, best
}

// mutatePlays applies one to three random local edits to a copy of a play list
// (the first keep plays are left alone).
func mutatePlays(r *RNG, n, keep int, cur []synthPlay) []synthPlay {
	{
		cand := append([]synthPlay{}, cur...)
		edits := 1 + r.Intn(3)
		for e := 0; e < edits; e++ {
			if len(cand) <= keep+2 {
				break
			}
			i := keep + r.Intn(len(cand)-keep)
			switch r.Intn(5) {
			case 0:
				cand[i].creator = r.Intn(n)
			case 1:
				cand[i].other = r.Intn(n)
			case 2:
				cand = append(cand[:i], cand[i+1:]...)
			case 3:
				a, b := r.Intn(n), r.Intn(n)
				cand = append(cand[:i], append([]synthPlay{{a, b}}, cand[i:]...)...)
			case 4:
				if i+1 < len(cand) {
					cand[i], cand[i+1] = cand[i+1], cand[i]
				}
			}
		}
		for i := range cand {
			if cand[i].creator == cand[i].other {
				cand[i].other = (cand[i].other + 1) % n
			}
		}
		return cand
	}
}

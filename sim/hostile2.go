package sim

import (
	"fmt"
	"math"
	"os"
	"strings"
	"testing/synctest"

	hg "github.com/mosaicnetworks/babble/src/hashgraph"
	"github.com/mosaicnetworks/babble/src/net"
	_state "github.com/mosaicnetworks/babble/src/node/state"
	"github.com/mosaicnetworks/babble/src/peers"
)

func (c *Cluster) byzNode() *SimNode {
	for _, n := range c.nodes {
		if n.byz {
			return n
		}
	}
	return nil
}

func (c *Cluster) honestRunning() []*SimNode {
	res := []*SimNode{}
	for _, n := range c.nodes {
		if n.running() {
			res = append(res, n)
		}
	}
	return res
}

/*******************************************************************************
C07 event admission
*******************************************************************************/

func (c *Cluster) byzForgeStep(s *Step) {
	victim := c.nodeAt(s.A)
	byz := c.byzNode()
	if victim == nil || byz == nil || !victim.running() || victim.state() != _state.Babbling {
		return
	}
	r := c.inner
	op := forgeOps[s.N%len(forgeOps)]
	var f *forgedEvent
	if c.lastForgedEv != nil && c.lastForgedVictim == victim.idx && c.lastForgedEpoch == victim.epoch && r.Bool(0.25) {
		// the very same inadmissible event again (a retry): a verdict must not
		// depend on having seen the event before
		f = c.lastForgedEv
		op = f.op
		c.stats.probe("c07-same-event-offered-again")
	} else {
		f = c.forge(victim, byz, r, op)
	}
	if f == nil {
		return
	}
	if !f.admissible {
		c.lastForgedEv, c.lastForgedVictim, c.lastForgedEpoch = f, victim.idx, victim.epoch
	}
	if f.admissible {
		// the forger does not equivocate with its valid events: only extend its
		// chain where the victim knows all of it
		_, vi := lastOf(victim, byz)
		max := -1
		for i := range c.dag.byCI[byz.pubHex] {
			if i > max {
				max = i
			}
		}
		if vi != max {
			return
		}
		// ... nor on top of anything but the last event it created itself (a
		// victim killed in the middle of the insertion hides that event from the
		// harness's record of the DAG; building a second event at the same height
		// would be an equivocation of the harness's making)
		if c.byzLast != nil && f.ev.SelfParent() != c.byzLast.Hex() {
			c.stats.probe("forger-waits-for-its-last-event-to-be-known")
			return
		}
		c.byzLast = f.ev
	}
	c.stats.probe("c07-attempt:" + op)
	if f.decorated {
		c.stats.probe("c07-attempt-with-valid-membership-payload")
	}
	store := victim.core().Hashgraph().Store
	before := c.digest(victim)
	knownBefore := store.KnownEvents()
	hash := f.ev.Hex()
	_, preErr := store.GetEvent(hash)
	alreadyThere := preErr == nil
	var err error
	wire := s.B == 1
	c.hostile, c.hostileSeen = true, true
	if wire {
		we, ok := c.toWireFor(victim, f.ev)
		if !ok {
			c.stats.probe("c07-not-expressible-on-wire")
			return
		}
		resp := &net.EagerSyncResponse{}
		err = c.net.deliver(victim, "eager", &net.EagerSyncRequest{FromID: byz.id, Events: []hg.WireEvent{we}}, resp)
	} else {
		ev := &hg.Event{}
		cloneJSON(f.ev, ev)
		err = victim.core().Hashgraph().InsertEventAndRunConsensus(ev, true)
	}
	if !victim.running() {
		return
	}
	after := c.digest(victim)
	_, postErr := store.GetEvent(hash)
	present := postErr == nil
	form := "full form"
	if wire {
		form = "wire form"
	}
	if !f.admissible {
		if present && !alreadyThere {
			c.violate("C07", "admission", "inadmissible-event-admitted:"+op, "node %d admitted an inadmissible event (%s, %s): %s", victim.idx, op, form, f.why)
		} else if !wire && err == nil {
			c.violate("C07", "admission", "inadmissible-event-no-error:"+op, "node %d returned no error for an inadmissible event (%s): %s", victim.idx, op, f.why)
		} else if !wire && before.all() != after.all() {
			c.violate("C07", "rejection-leaves-state", "rejected-event-changed-state:"+op, "node %d rejected an event (%s: %s) but its state changed: %s", victim.idx, op, f.why, before.diff(after))
		} else if wire {
			// the victim may legitimately create a self-event of its own; the forger's chain must be untouched
			ka := store.KnownEvents()
			if ka[byz.id] != knownBefore[byz.id] && op != "impersonate-honest" {
				c.violate("C07", "rejection-leaves-state", "rejected-event-changed-known:"+op, "node %d rejected an event (%s) but its known index for the forger moved from %d to %d", victim.idx, op, knownBefore[byz.id], ka[byz.id])
			}
		}
		c.stats.probe("c07-rejected")
	} else {
		if err == nil && !wire {
			ka := store.KnownEvents()
			if !present || ka[byz.id] != f.ev.Index() {
				c.violate("C07", "admission", "admitted-event-missing", "node %d accepted a valid event of the forger (index %d) but does not hold it (known %d)", victim.idx, f.ev.Index(), ka[byz.id])
			}
			c.stats.probe("c07-admitted")
		} else if err != nil {
			c.stats.probe("c07-valid-refused")
		}
	}
	if msg := c.listingInvariant(victim); msg != "" {
		c.violate("C07", "listing", "participant-listing-broken", "node %d after attempt %s: %s", victim.idx, op, msg)
	}
}

/*******************************************************************************
C08 hostile RPC values
*******************************************************************************/

func hostileKey(r *RNG, valid string) string {
	switch r.Intn(14) {
	case 0:
		return ""
	case 1:
		return "0"
	case 2:
		return "0X"
	case 3:
		return "0x"
	case 4:
		return "0XZZ"
	case 5:
		return "0X123"
	case 6:
		return strings.ToLower(valid)
	case 7:
		return "0x" + valid[2:]
	case 8:
		return "0X" + strings.Repeat("F", 20000)
	case 9:
		return "0X04" + strings.Repeat("00", 64)
	case 10:
		return "ééé"
	case 11:
		return valid[:len(valid)-2]
	case 12:
		return "0X" + strings.Repeat("04", 65)
	}
	return valid
}

func hostileSig(r *RNG) string {
	opts := []string{"", "abc", "|", "a|b|c", "!!|??", "zz|zz", "-1|-1", "0|0", "1|", "|1",
		strings.Repeat("z", 5000) + "|" + strings.Repeat("z", 5000), " | ", "1e5|1e5", "\x00|\x00"}
	return opts[r.Intn(len(opts))]
}

func hostileInt(r *RNG) int {
	opts := []int{-1, -2, -1 << 31, 1<<31 - 1, 0, 1, 1 << 40, -(1 << 40), 1000000}
	return opts[r.Intn(len(opts))]
}

func (c *Cluster) hostileKnown(r *RNG, victim *SimNode) map[uint32]int {
	switch r.Intn(6) {
	case 0:
		return nil
	case 1:
		return map[uint32]int{}
	case 2:
		m := map[uint32]int{}
		for id := range victim.core().KnownEvents() {
			m[id] = hostileInt(r)
		}
		return m
	case 3:
		return map[uint32]int{0: -5, 4294967295: 1 << 30, uint32(r.U64()): hostileInt(r)}
	case 4:
		m := victim.core().KnownEvents()
		for id := range m {
			m[id] = m[id] + r.Range(-3, 3)
		}
		return m
	}
	return victim.core().KnownEvents()
}

func (c *Cluster) hostileWireEvents(r *RNG, victim, byz *SimNode) []hg.WireEvent {
	n := r.Intn(4)
	out := []hg.WireEvent{}
	known := victim.core().KnownEvents()
	ids := []uint32{}
	for id := range known {
		ids = append(ids, id)
	}
	sortU32(ids)
	for i := 0; i <= n; i++ {
		we := hg.WireEvent{}
		switch r.Intn(8) {
		case 0: // zero value
		case 1:
			we.Body.CreatorID = uint32(r.U64())
			we.Signature = hostileSig(r)
		default:
			if len(ids) > 0 {
				we.Body.CreatorID = ids[r.Intn(len(ids))]
			}
			we.Body.Index = hostileInt(r)
			if r.Bool(0.5) {
				we.Body.Index = known[we.Body.CreatorID] + 1
			}
			we.Body.SelfParentIndex = known[we.Body.CreatorID]
			if r.Bool(0.3) {
				we.Body.SelfParentIndex = hostileInt(r)
			}
			we.Body.OtherParentIndex = hostileInt(r)
			if len(ids) > 0 && r.Bool(0.5) {
				oid := ids[r.Intn(len(ids))]
				we.Body.OtherParentCreatorID = oid
				we.Body.OtherParentIndex = known[oid]
			}
			we.Body.Timestamp = int64(hostileInt(r))
			we.Signature = hostileSig(r)
			if r.Bool(0.4) {
				we.Body.Transactions = [][]byte{nil, {}, r.Bytes(r.Intn(50))}
			}
			if r.Bool(0.4) {
				we.Body.BlockSignatures = []hg.WireBlockSignature{{Index: hostileInt(r), Signature: hostileSig(r)}, {Index: 0, Signature: hostileSig(r)}}
			}
			if r.Bool(0.4) {
				we.Body.InternalTransactions = []hg.InternalTransaction{{
					Body:      hg.InternalTransactionBody{Type: hg.TransactionType(r.Intn(4)), Peer: peers.Peer{PubKeyHex: hostileKey(r, byz.pubHex), NetAddr: "x", Moniker: "m"}},
					Signature: hostileSig(r),
				}}
			}
		}
		out = append(out, we)
	}
	return out
}

func sortU32(a []uint32) {
	for i := 1; i < len(a); i++ {
		for j := i; j > 0 && a[j] < a[j-1]; j-- {
			a[j], a[j-1] = a[j-1], a[j]
		}
	}
}

// byzRPCStep delivers one structurally valid request with hostile field values
// (or serves one hostile response) to a node in whatever state it is in.
func (c *Cluster) byzRPCStep(s *Step) {
	victim := c.nodeAt(s.A)
	byz := c.byzNode()
	if victim == nil || byz == nil || !victim.running() {
		return
	}
	r := c.inner
	kinds := []string{"sync", "eager", "join", "ff", "syncresp", "ffresp"}
	kind := kinds[s.N%len(kinds)]
	c.stats.probe("c08-input:" + kind)
	logBefore := len(victim.app.log)
	blocksBefore := c.digest(victim).blocks
	lastBefore := victim.node.GetLastBlockIndex()
	bodies := map[int]string{}
	for i := 0; i <= lastBefore; i++ {
		if b, err := victim.node.GetBlock(i); err == nil {
			bodies[i] = bodyDigest(&b.Body)
		}
	}
	_ = blocksBefore
	c.hostile, c.hostileSeen = true, true
	switch kind {
	case "sync":
		req := &net.SyncRequest{FromID: byz.id, Known: c.hostileKnown(r, victim), SyncLimit: hostileInt(r)}
		if r.Bool(0.3) {
			req.FromID = uint32(r.U64())
		}
		c.net.deliver(victim, "sync", req, &net.SyncResponse{})
	case "eager":
		req := &net.EagerSyncRequest{FromID: byz.id, Events: c.hostileWireEvents(r, victim, byz)}
		c.net.deliver(victim, "eager", req, &net.EagerSyncResponse{})
	case "ff":
		c.net.deliver(victim, "ff", &net.FastForwardRequest{FromID: uint32(r.U64())}, &net.FastForwardResponse{})
	case "join":
		itx := hg.InternalTransaction{
			Body:      hg.InternalTransactionBody{Type: hg.TransactionType(r.Intn(3)), Peer: peers.Peer{PubKeyHex: hostileKey(r, byz.pubHex), NetAddr: "zz", Moniker: "evil"}},
			Signature: hostileSig(r),
		}
		copies := 1
		if r.Bool(0.4) {
			// a well-formed request, correctly signed by an outsider with its own key,
			// possibly sent several times over (retries, several connections)
			sk := deriveKey(c.seed, 300+r.Intn(6))
			itx = hg.NewInternalTransactionJoin(*newPeerFromKey(sk))
			itx.Sign(sk)
			copies = 1 + r.Intn(6)
			c.stats.probe("c08-valid-join-request-copies")
		}
		req := &net.JoinRequest{InternalTransaction: itx}
		for k := 0; k < copies; k++ {
			// a join request can block (promise); run it as a task under its own recover
			t := &task{id: len(c.tasks), kind: "hostile-join", n: victim, via: nil}
			c.tasks = append(c.tasks, t)
			go func() {
				defer func() {
					if rec := recover(); rec != nil {
						c.violate("C08", "no-panic", "panic@"+topFrame(), "panic while processing a hostile JoinRequest (peer key %q, signature %q): %v at %s", clipS(itx.Body.Peer.PubKeyHex, 40), clipS(itx.Signature, 40), rec, topFrame())
					}
					t.done = true
				}()
				c.net.deliver(victim, "join", req, &net.JoinResponse{})
			}()
			synctest.Wait()
		}
	case "syncresp":
		if victim.state() != _state.Babbling {
			return
		}
		resp := &net.SyncResponse{FromID: byz.id, Events: c.hostileWireEvents(r, victim, byz), Known: c.hostileKnown(r, victim)}
		c.net.responders[byz.addr] = func(k string, args interface{}) (interface{}, error) { return resp, nil }
		if p := findPeer(victim, byz); p != nil {
			victim.node.SimGossip(p)
		}
		delete(c.net.responders, byz.addr)
	case "ffresp":
		c.hostileFFResponse(victim, byz, r)
	}
	if !victim.running() {
		return
	}
	// delivered blocks and stored bodies must be unchanged
	if len(victim.app.log) < logBefore {
		c.violate("C08", "history-unchanged", "delivered-log-shrunk", "node %d: delivery log shrank after hostile %s input", victim.idx, kind)
	}
	for i, dg := range bodies {
		b, err := victim.node.GetBlock(i)
		if err != nil {
			if kind == "ffresp" {
				continue
			}
			c.violate("C08", "history-unchanged", "stored-block-vanished", "node %d: block %d is no longer readable after hostile %s input: %v", victim.idx, i, kind, err)
			break
		}
		if bodyDigest(&b.Body) != dg {
			c.violate("C08", "history-unchanged", "stored-block-changed", "node %d: body of block %d changed after hostile %s input", victim.idx, i, kind)
			break
		}
	}
}

func clipS(s string, n int) string {
	if len(s) > n {
		return s[:n] + "..."
	}
	return s
}

// hostileFFResponse: the victim is (made) a catching-up node; the Byzantine
// peer answers its FastForwardRequest with hostile values.
func (c *Cluster) hostileFFResponse(victim, byz *SimNode, r *RNG) {
	block := hg.Block{Body: hg.BlockBody{Index: hostileInt(r), RoundReceived: hostileInt(r), Timestamp: int64(hostileInt(r))}}
	switch r.Intn(4) {
	case 0:
		block.Signatures = nil
	case 1:
		block.Signatures = map[string]string{hostileKey(r, byz.pubHex): hostileSig(r), "": hostileSig(r)}
	case 2:
		block.Signatures = map[string]string{byz.pubHex: hostileSig(r)}
	}
	frame := hg.Frame{Round: hostileInt(r)}
	switch r.Intn(4) {
	case 0:
		frame.Peers = []*peers.Peer{nil}
	case 1:
		frame.Peers = []*peers.Peer{peers.NewPeer(hostileKey(r, byz.pubHex), "a", "b")}
		frame.Roots = map[string]*hg.Root{"x": nil, byz.pubHex: {Events: []*hg.FrameEvent{nil, {Core: nil}}}}
	case 2:
		frame.Peers = []*peers.Peer{byz.peer()}
		frame.Events = []*hg.FrameEvent{{Core: &hg.Event{}}, nil}
		frame.PeerSets = map[int][]*peers.Peer{-1: nil, 0: {nil}}
	}
	resp := &net.FastForwardResponse{FromID: byz.id, Block: block, Frame: frame, Snapshot: r.Bytes(r.Intn(20))}
	// through core.fastForward directly (any state) ...
	cb, cf := hg.Block{}, hg.Frame{}
	func() {
		defer func() {
			if rec := recover(); rec != nil {
				if _, isCrash := rec.(crashSentinel); isCrash {
					panic(rec)
				}
				if _, isH := rec.(harnessError); isH {
					panic(rec)
				}
				c.violate("C08", "no-panic", "panic@"+topFrame(), "panic in core.fastForward on a hostile response: %v at %s", rec, topFrame())
			}
		}()
		if err := jsonCopy(resp.Block, &cb); err != nil {
			return
		}
		if err := jsonCopy(resp.Frame, &cf); err != nil {
			return
		}
		victim.core().CoreFastForward(&cb, &cf)
	}()
}

func init() {
	profiles["C07"] = &profile{
		config: func(r *RNG, thorough bool) *RunConfig {
			cfg := baseConfig("C07", r, thorough)
			cfg.N0 = []int{4, 4, 5, 5, 7}[r.Intn(5)]
			cfg.Stores = make([]string, cfg.N0)
			for i := range cfg.Stores {
				cfg.Stores[i] = "inmem"
			}
			mixStores(cfg, r, 0.25)
			cfg.Byz = 1
			cfg.PByz = 0.25
			cfg.PSilence = 0
			cfg.PPartition = 0
			cfg.PCrash = 0
			if r.Bool(0.5) {
				// persistent nodes are restarted: rejections must leave no hole in what was persisted
				mixStores(cfg, r, 0.5)
				cfg.PCrash = 0.015
			}
			if thorough {
				cfg.Steps = r.Range(80, 300)
			} else {
				cfg.Steps = r.Range(50, 200)
			}
			if r.Bool(0.3) {
				cfg.StaleForger = true
				cfg.Steps += 40
			}
			return cfg
		},
		run: func(c *Cluster, spec *runSpec) {
			c.byzHandler = c.byzForgeStep
			c.byzGen = func(g *genState) *Step {
				hs := c.honestRunning()
				if len(hs) == 0 {
					return nil
				}
				if c.cfg.StaleForger && 2*c.stepNo > c.cfg.Steps {
					// the forger keeps quiet for the second half of the run (see staleHeadScenario)
					return nil
				}
				return &Step{Op: "byz", Kind: "forge", A: hs[c.gen.Intn(len(hs))].idx, N: c.gen.Intn(len(forgeOps)), B: c.gen.Intn(2)}
			}
			c.finalHook = c.staleHeadScenario
			clusterRun(c, spec)
		},
	}
	profiles["C08"] = &profile{
		config: func(r *RNG, thorough bool) *RunConfig {
			cfg := baseConfig("C08", r, thorough)
			cfg.N0 = []int{3, 4, 4, 5}[r.Intn(4)]
			if cfg.N0 == 3 {
				cfg.N0 = 4
			}
			cfg.Stores = make([]string, cfg.N0)
			for i := range cfg.Stores {
				cfg.Stores[i] = "inmem"
			}
			cfg.Byz = 1
			cfg.PByz = 0.3
			cfg.PSilence = 0
			cfg.PPartition = 0
			cfg.PCrash = 0
			if r.Bool(0.4) {
				// persistent victims that are restarted after the hostile inputs
				mixStores(cfg, r, 0.6)
				cfg.PCrash = 0.02
			}
			cfg.FairSuffix = true
			if r.Bool(0.3) {
				cfg.PJoin = 0.01
				cfg.MaxJoins = 1
				cfg.FastSyncLate = r.Bool(0.5)
			}
			if thorough {
				cfg.Steps = r.Range(60, 300)
			} else {
				cfg.Steps = r.Range(40, 160)
			}
			return cfg
		},
		run: func(c *Cluster, spec *runSpec) {
			c.byzHandler = func(s *Step) {
				switch s.Kind {
				case "raw":
					c.byzRawBytesStep(s)
				case "sigforge":
					c.byzSigStep(s)
				case "forge":
					// validly signed events of the Byzantine validator that its chain
					// does not admit (the admission verdicts are C07's; here they are
					// hostile input like any other)
					c.byzForgeStep(s)
				default:
					c.byzRPCStep(s)
				}
			}
			c.byzGen = func(g *genState) *Step {
				vs := []*SimNode{}
				for _, n := range c.nodes {
					if n.running() {
						vs = append(vs, n)
					}
				}
				if len(vs) == 0 {
					return nil
				}
				st := &Step{Op: "byz", Kind: "rpc", A: vs[c.gen.Intn(len(vs))].idx, N: c.gen.Intn(6)}
				if c.gen.Bool(0.2) {
					st.Kind = "raw"
					st.N = c.gen.Intn(1000)
				} else if c.gen.Bool(0.15) {
					// validly signed events of the Byzantine validator carrying hostile block-signature payloads
					st.Kind = "sigforge"
					st.N = c.gen.Intn(len(sigForgeOps))
					// wire form only: what a remote party can send (the full form, where a
					// block signature may name another validator than the event's
					// creator, cannot be expressed on the wire - it is C09's subject)
					st.B = 1
				} else if c.gen.Bool(0.15) {
					st.Kind = "forge"
					st.N = c.gen.Intn(len(forgeOps))
					if c.gen.Bool(0.3) {
						st.N = len(forgeOps) - 1
					}
					st.B = 1
				}
				return st
			}
			c.finalHook = c.checkC08StillLive
			clusterRun(c, spec)
		},
	}
}

// checkC08StillLive: after the hostile inputs the honest nodes can still
// process valid messages: the fair suffix reached quiescence (liveness is
// C06's verdict; here we only demand that a fresh transaction commits).
func (c *Cluster) checkC08StillLive() {
	c.rolledWindowScenario()
	if c.fairMode && c.hostileSeen {
		// a node whose every exchange of the fair suffix failed (from the first
		// cycle to the last, at least five cycles) can no longer process valid
		// messages
		for _, n := range c.liveBabbling() {
			if n.fairOK == 0 && n.fairFail >= 5*maxInt(len(c.liveBabbling())-1, 1) && c.fairCount >= 5 {
				c.violate("C08", "still-processes-valid-messages", "every-sync-fails-after-hostile-input", "node %d: all of its %d exchanges with honest peers during the %d fair cycles after the hostile inputs failed (last error: %s)", n.idx, n.fairFail, c.fairCount, n.fairLastErr)
				return
			}
		}
	}
	if !c.fairMode || c.fairQuiescentAt == 0 {
		return
	}
	for _, n := range c.liveBabbling() {
		for _, tx := range n.acceptedTxs {
			if c.ledger.committed[string(tx)] == 0 {
				c.violate("C08", "still-processes-valid-messages", "victim-stuck-after-hostile-input", "node %d: a transaction it accepted is still uncommitted although the network went idle after the hostile inputs", n.idx)
				return
			}
		}
	}
	_ = fmt.Sprint
}

/*******************************************************************************
C09: adversarial block-signature payloads inside otherwise valid events of a
Byzantine validator.
*******************************************************************************/

var sigForgeOps = []string{"other-body", "future-block", "unknown-block", "malformed", "duplicate", "stranger-style", "valid-own", "negative-index", "swapped-index", "own-leave-request", "valid-own"}

func (c *Cluster) byzSigStep(s *Step) {
	victim := c.nodeAt(s.A)
	byz := c.byzNode()
	if victim == nil || byz == nil || !victim.running() || victim.state() != _state.Babbling {
		return
	}
	// the forger extends its own chain consistently (no equivocation)
	sp, spIdx := lastOf(victim, byz)
	max := -1
	for i := range c.dag.byCI[byz.pubHex] {
		if i > max {
			max = i
		}
	}
	if spIdx != max {
		return
	}
	if c.byzLast != nil && sp != c.byzLast.Hex() {
		// (see byzForgeStep: never a second event at a height it already used)
		c.stats.probe("forger-waits-for-its-last-event-to-be-known")
		return
	}
	r := c.inner
	op := sigForgeOps[s.N%len(sigForgeOps)]
	store := victim.core().Hashgraph().Store
	last := store.LastBlockIndex()
	sigs := []hg.BlockSignature{}
	mkSig := func(bodyOf, claimIndex int) (hg.BlockSignature, bool) {
		b, err := store.GetBlock(bodyOf)
		if err != nil {
			return hg.BlockSignature{}, false
		}
		bs, err := b.Sign(byz.key)
		if err != nil {
			return hg.BlockSignature{}, false
		}
		bs.Index = claimIndex
		return bs, true
	}
	switch op {
	case "other-body":
		if last < 1 {
			return
		}
		i := r.Intn(last + 1)
		j := (i + 1 + r.Intn(last)) % (last + 1)
		if bs, ok := mkSig(j, i); ok {
			sigs = append(sigs, bs)
		}
	case "future-block":
		if last < 0 {
			return
		}
		if bs, ok := mkSig(last, last+1+r.Intn(5)); ok {
			sigs = append(sigs, bs)
		}
	case "unknown-block":
		sigs = append(sigs, hg.BlockSignature{Validator: byz.pubB, Index: 100000 + r.Intn(1000), Signature: "1a|2b"})
	case "negative-index":
		sigs = append(sigs, hg.BlockSignature{Validator: byz.pubB, Index: -1 - r.Intn(3), Signature: "1a|2b"})
	case "malformed":
		idx := 0
		if last >= 0 {
			idx = r.Intn(last + 1)
		}
		sigs = append(sigs, hg.BlockSignature{Validator: byz.pubB, Index: idx, Signature: hostileSig(r)})
	case "duplicate":
		if last < 0 {
			return
		}
		i := r.Intn(last + 1)
		if bs, ok := mkSig(i, i); ok {
			sigs = append(sigs, bs, bs, bs)
		}
	case "stranger-style":
		// a correct signature by a key that is no validator; on the wire it would be attributed to the forger
		if last < 0 {
			return
		}
		i := r.Intn(last + 1)
		b, err := store.GetBlock(i)
		if err != nil {
			return
		}
		st := deriveKey(c.seed, 250+r.Intn(20))
		bs, _ := b.Sign(st)
		sigs = append(sigs, bs)
	case "valid-own":
		if last < 0 {
			return
		}
		i := r.Intn(last + 1)
		if bs, ok := mkSig(i, i); ok {
			sigs = append(sigs, bs)
		}
	case "swapped-index":
		if last < 1 {
			return
		}
		if a, ok := mkSig(last, last-1); ok {
			if b, ok2 := mkSig(last-1, last); ok2 {
				sigs = append(sigs, a, b)
			}
		}
	}
	var itxs []hg.InternalTransaction
	if op == "own-leave-request" {
		// the Byzantine validator asks to leave (a valid, self-signed request in a
		// valid event) and goes on creating events afterwards: once its removal is
		// in force its block signatures are those of a participant that is known
		// to everybody but is no member of the blocks' validator sets
		if c.cfg.Profile != "C09" || c.byzLeaveAsked || !contains(c.vs.latest(), byz.pubHex) || len(c.vs.latest()) < 4 {
			return
		}
		itx := hg.NewInternalTransactionLeave(*byz.peer())
		itx.Sign(byz.key)
		itxs = []hg.InternalTransaction{itx}
		c.byzLeaveAsked = true
		c.stats.probe("c09-byzantine-validator-asks-to-leave")
	}
	if len(sigs) == 0 && len(itxs) == 0 {
		return
	}
	if op == "valid-own" && !contains(c.vs.latest(), byz.pubHex) {
		c.stats.probe("c09-signature-of-a-departed-validator")
	}
	other := c.someEventAt(victim, r)
	ev := newEvent(byz, spIdx+1, sp, other, nil, itxs, sigs, int64(946684800+c.stepNo))
	signEvent(ev, byz)
	c.byzLast = ev
	c.stats.probe("c09-hostile-signatures:" + op)
	c.hostile, c.hostileSeen = true, true
	if s.B == 1 {
		if we, ok := c.toWireFor(victim, ev); ok {
			c.net.deliver(victim, "eager", &net.EagerSyncRequest{FromID: byz.id, Events: []hg.WireEvent{we}}, &net.EagerSyncResponse{})
		}
	} else {
		cp := &hg.Event{}
		cloneJSON(ev, cp)
		if err := victim.core().Hashgraph().InsertEventAndRunConsensus(cp, true); err == nil {
			victim.core().ProcessSigPool()
		}
	}
	c.hostile = false
}

// staleHeadScenario (C07, end of every run): the events of the run are fed to
// a fresh hashgraph whose in-memory cache is smaller than the number of events
// created since the forger's latest valid event. That event is then still the
// head of the forger's chain in the participant index, but no longer in the
// event cache. Events of the forger on top of it that re-use an index it
// already used (same as the head's, lower, zero) must be refused and leave the
// forger's chain as it is - however the check of the self-parent copes with an
// event it cannot read. (A single instance fed sequentially: deterministic also
// below the cache sizes a gossiping node supports.)
func (c *Cluster) staleHeadScenario() {
	byz := c.byzNode()
	if byz == nil || abortRun.Load() {
		return
	}
	c.staleHeadDirected(byz)
	chain := c.dag.byCI[byz.pubHex]
	if len(chain) == 0 || len(c.dag.forks) > 0 {
		return
	}
	headIdx := -1
	for i := range chain {
		if i > headIdx {
			headIdx = i
		}
	}
	head := chain[headIdx]
	after := len(c.dag.order) - c.dag.events[head].Seq - 1
	if after < 25 {
		c.stats.probe("c07-stale-head-too-few-later-events")
		return
	}
	cache := after - 5
	if cache > 120 {
		cache = 120
	}
	in := c.newInstance("stale-head", "inmem", cache)
	defer in.close()
	for _, de := range c.dag.order {
		progress.Add(1)
		// (insertions that fail because an ancestor was evicted are simply skipped)
		in.h.InsertEventAndRunConsensus(eventFromRecord(de), true)
	}
	store := in.h.Store
	if last, err := store.LastEventFrom(byz.pubHex); err != nil || last != head {
		c.stats.probe("c07-stale-head-precondition-not-met")
		return
	}
	if _, err := store.GetEvent(head); err == nil {
		c.stats.probe("c07-stale-head-precondition-not-met")
		return
	}
	c.staleHeadAttempts(in, byz, head, headIdx, cache)
}

// staleHeadAttempts: the forger's latest event (head, index headIdx) is still
// the last entry of its per-participant index in the instance but has been
// evicted from the event cache; index-reusing events on top of it must be refused.
func (c *Cluster) staleHeadAttempts(in *instance, byz *SimNode, head string, headIdx, cache int) {
	store := in.h.Store
	// an other-parent the instance can read
	var other *hg.Event
	for _, n := range c.nodes {
		if n == byz {
			continue
		}
		if h, err := store.LastEventFrom(n.pubHex); err == nil && h != "" {
			if ev, err := store.GetEvent(h); err == nil {
				other = ev
				break
			}
		}
	}
	if other == nil {
		c.stats.probe("c07-stale-head-precondition-not-met")
		return
	}
	listingBefore, _ := store.ParticipantEvents(byz.pubHex, -1)
	tried := map[int]bool{}
	for k, idx := range []int{headIdx, headIdx - 1, 0, headIdx, 0} {
		if idx < 0 || (tried[idx] && k < 3) {
			continue
		}
		tried[idx] = true
		wire := k < 3
		ev := newEvent(byz, idx, head, other.Hex(), [][]byte{[]byte(fmt.Sprintf("stale-%d", k))}, nil, nil, int64(946684800+k))
		signEvent(ev, byz)
		var err error
		c.hostile = true
		if wire {
			we := hg.WireEvent{Signature: ev.Signature}
			we.Body.Transactions = ev.Body.Transactions
			we.Body.Index = idx
			we.Body.Timestamp = ev.Body.Timestamp
			we.Body.CreatorID = byz.id
			we.Body.SelfParentIndex = headIdx
			we.Body.OtherParentCreatorID = c.byPub[other.Creator()].id
			we.Body.OtherParentIndex = other.Index()
			var rev *hg.Event
			rev, err = in.h.ReadWireInfo(we)
			if err == nil {
				err = in.h.InsertEventAndRunConsensus(rev, false)
			}
		} else {
			cp := &hg.Event{}
			cloneJSON(ev, cp)
			err = in.h.InsertEventAndRunConsensus(cp, true)
		}
		c.hostile = false
		c.stats.probe("c07-stale-head-attempt")
		form := "full form"
		if wire {
			form = "wire form"
		}
		why := fmt.Sprintf("index %d on top of a self-parent of index %d (the creator's latest event, evicted from the event cache of %d entries)", idx, headIdx, cache)
		if err == nil {
			c.violate("C07", "admission", "inadmissible-event-admitted:stale-head", "an instance admitted an event of the forger with %s, %s", why, form)
			return
		}
		if last, _ := store.LastEventFrom(byz.pubHex); last != head {
			c.violate("C07", "rejection-leaves-state", "rejected-event-changed-state:stale-head", "an instance refused an event of the forger with %s (%s: %v) but the forger's latest event changed from %s to %s", why, form, err, short(head), short(last))
			return
		}
		listingAfter, _ := store.ParticipantEvents(byz.pubHex, -1)
		if !sameList(listingBefore, listingAfter) {
			c.violate("C07", "rejection-leaves-state", "rejected-event-changed-state:stale-head", "an instance refused an event of the forger with %s (%s: %v) but the listing of the forger's events changed (%d -> %d entries)", why, form, err, len(listingBefore), len(listingAfter))
			return
		}
	}
}

func hostileIndex(r *RNG) int {
	opts := []int{math.MinInt64, math.MinInt64 + 1, math.MinInt64 + 7, math.MaxInt64, math.MaxInt64 - 1, math.MinInt32, math.MaxInt32,
		-1, -2, -3, 0, 1, 1 << 40, -(1 << 40), math.MinInt64 / 2, math.MaxInt64 / 2}
	return opts[r.Intn(len(opts))]
}

// rolledWindowScenario (C08): with default-sized caches no creator's rolling
// index ever rolls in a simulated run, so the arithmetic around the lower edge
// of the window is never reached by the hostile known-maps sent to the nodes.
// At the end of a run its events are fed to one fresh instance whose cache is
// about half the longest chain (sequential, deterministic); the lookups a sync
// request performs on behalf of its known-map (Store.ParticipantEvents per
// creator, as core.eventDiff does, and ParticipantEvent) are then made with
// boundary values of the integer range. Any answer is fine; a panic is not.
func (c *Cluster) rolledWindowScenario() {
	if abortRun.Load() || len(c.dag.forks) > 0 {
		return
	}
	longest := 0
	for _, ch := range c.dag.byCI {
		if len(ch) > longest {
			longest = len(ch)
		}
	}
	cache := longest / 2
	if cache > 60 {
		cache = 60
	}
	if cache < 10 {
		c.stats.probe("c08-rolled-window-skipped-short-history")
		return
	}
	in := c.newInstance("rolled-window", "inmem", cache)
	defer in.close()
	for _, de := range c.dag.order {
		progress.Add(1)
		in.h.InsertEventAndRunConsensus(eventFromRecord(de), true)
	}
	store := in.h.Store
	r := NewRNG(Mix(c.seed, 0x726f6c6c))
	pubs := []string{}
	for _, n := range c.nodes {
		pubs = append(pubs, n.pubHex)
	}
	c.stats.probe("c08-rolled-window-instance")
	for k := 0; k < 40; k++ {
		pub := pubs[r.Intn(len(pubs))]
		v := hostileIndex(r)
		if r.Bool(0.3) {
			// around the edges of the window
			v = len(c.dag.byCI[pub]) - cache + r.Range(-3, 3)
		}
		func() {
			defer func() {
				if rec := recover(); rec != nil {
					c.violate("C08", "no-panic", "panic@"+topFrame(), "panic in the store lookup a sync request performs for a creator whose rolling index has rolled (cache %d, %d events of the creator, known index %d): %v at %s", cache, len(c.dag.byCI[pub]), v, rec, topFrame())
				}
			}()
			c.stats.probe("c08-input:known-index-on-rolled-window")
			store.ParticipantEvents(pub, v)
			store.ParticipantEvent(pub, v)
		}()
	}
}

// staleHeadDirected builds the stale-head precondition on purpose: a small
// history among the genesis validators in which the forger's last event is
// referenced by nobody, followed by more events of the others than the
// instance's event cache holds (the forger's head is then evicted while still
// being the last entry of its index). Sequential, deterministic.
func (c *Cluster) staleHeadDirected(byz *SimNode) {
	vals := []*SimNode{}
	fi := -1
	for _, m := range c.genesisSet {
		if m == byz {
			fi = len(vals)
		}
		vals = append(vals, m)
	}
	if fi < 0 || len(vals) < 4 {
		c.stats.probe("c07-stale-head-directed-skipped")
		return
	}
	r := NewRNG(Mix(c.seed, 0x7374616c))
	cache := r.Range(12, 40)
	in := c.newInstance("stale-head-directed", "inmem", cache)
	defer in.close()
	n := len(vals)
	heads := make([]string, n)
	idx := make([]int, n)
	for i := range idx {
		idx[i] = -1
	}
	ts := int64(946684800)
	ok := true
	mk := func(a, b int) {
		op := ""
		if b >= 0 {
			op = heads[b]
		}
		ts++
		ev := newEvent(vals[a], idx[a]+1, heads[a], op, nil, nil, nil, ts)
		signEvent(ev, vals[a])
		// (insertion only: a consensus pass would trip over the evicted,
		// never-referenced event, which stays undetermined for good)
		if err := in.h.InsertEvent(ev, true); err != nil {
			if os.Getenv("SIM_TRACE") != "" {
				fmt.Printf("stale-head-directed: insert %d on %d: %v\n", a, b, err)
			}
			ok = false
			return
		}
		heads[a] = ev.Hex()
		idx[a]++
	}
	for a := 0; a < n; a++ {
		mk(a, -1)
	}
	// everybody gossips for a while, the forger included
	for k := r.Range(1, 3) * n; k > 0 && ok; k-- {
		a := r.Intn(n)
		b := (a + 1 + r.Intn(n-1)) % n
		mk(a, b)
	}
	// the forger's last event, which nobody will ever build on
	others := []int{}
	for i := range vals {
		if i != fi {
			others = append(others, i)
		}
	}
	mk(fi, others[r.Intn(len(others))])
	head, headIdx := heads[fi], idx[fi]
	frozen := heads[fi]
	_ = frozen
	// the others go on among themselves (they keep referring to the forger's
	// earlier events only through their own ancestors)
	for k := 0; k < 3*cache+10 && ok; k++ {
		a := others[r.Intn(len(others))]
		b := others[r.Intn(len(others))]
		if a == b {
			continue
		}
		mk(a, b)
	}
	if !ok {
		c.stats.probe("c07-stale-head-directed-insert-error")
		return
	}
	store := in.h.Store
	if last, err := store.LastEventFrom(byz.pubHex); err != nil || last != head {
		c.stats.probe("c07-stale-head-directed-precondition-not-met")
		return
	}
	if _, err := store.GetEvent(head); err == nil {
		c.stats.probe("c07-stale-head-directed-head-still-cached")
		return
	}
	c.stats.probe("c07-stale-head-directed")
	c.staleHeadAttempts(in, byz, head, headIdx, cache)
}

package sim

// profile = (scenario distribution, engine entry point) of one property check.
type profile struct {
	config func(r *RNG, thorough bool) *RunConfig
	run    func(c *Cluster, spec *runSpec)
}

var profiles = map[string]*profile{}

func clusterRun(c *Cluster, spec *runSpec) {
	c.genesis()
	c.drive(spec)
	c.finalChecks(spec)
}

func (c *Cluster) finalChecks(spec *runSpec) {
	c.harvestAll()
	for _, n := range c.nodes {
		if n.started && !n.byz && !n.isObserver {
			c.checkC02(n, true)
		}
	}
	c.finalStoreCheck()
	c.continueShadows()
	c.runOracles(true)
	c.checkC05End()
	if c.finalHook != nil {
		c.finalHook()
	}
}

func init() {
	synthRun := func(c *Cluster, spec *runSpec) { c.synthRun(spec) }
	profiles["C01"] = &profile{
		config: func(r *RNG, thorough bool) *RunConfig {
			cfg := baseConfig("C01", r, thorough)
			if r.Bool(0.4) {
				cfg.PJoin = 0.01
				cfg.PLeave = 0.006
				cfg.MaxJoins = r.Range(1, 3)
				cfg.MaxLeaves = r.Range(0, 2)
				cfg.Steps += 100
			}
			mixStores(cfg, r, 0.2)
			if r.Bool(0.5) {
				cfg.PAsync = 0.1 + 0.4*r.Float()
			}
			if cfg.N0 >= 4 && r.Bool(0.5) {
				cfg.Straggler = 1 + r.Intn(cfg.N0)
				cfg.StragglerP = []float64{0.03, 0.06, 0.1, 0.2}[r.Intn(4)]
				cfg.PSilence = 0
				cfg.StragglerListens = r.Bool(0.5)
			}
			if r.Bool(0.15) {
				// every request travels through babble's real NetworkTransport
				cfg.Wire = true
			}
			if r.Bool(0.3) {
				// two (or more) honest views of one synthetic straggler-heavy history
				cfg.Synthetic = true
				cfg.Variants = 5
				if thorough {
					cfg.Variants = 10
				}
			}
			return cfg
		},
		run: func(c *Cluster, spec *runSpec) {
			if c.cfg.Synthetic {
				synthRun(c, spec)
				return
			}
			clusterRun(c, spec)
		},
	}
	profiles["C02"] = &profile{
		config: func(r *RNG, thorough bool) *RunConfig {
			cfg := baseConfig("C02", r, thorough)
			if rf := NewRNG(Mix(r.U64(), 0x66726d65)); rf.Bool(0.2) {
				// persistent nodes whose database now and then refuses the write of a frame
				cfg.PFrameErr = 0.1
				defer func() { mixStores(cfg, rf, 0.6) }()
			}
			cfg.FullReread = true
			if cfg.N0 > 5 {
				cfg.N0 = 5
				cfg.Stores = cfg.Stores[:5]
			}
			if r.Bool(0.4) {
				cfg.PJoin = 0.01
				cfg.PLeave = 0.006
				cfg.MaxJoins = r.Range(1, 2)
				cfg.MaxLeaves = r.Range(0, 1)
				cfg.Steps += 100
				// persistent joiners replay blocks of rounds they are not a validator of
				cfg.PJoinerBadger = 0.6
			}
			mixStores(cfg, r, 0.4)
			if r.Bool(0.4) {
				cfg.PAsync = 0.1 + 0.3*r.Float()
			}
			if r.Bool(0.4) {
				// persistent nodes with caches small enough that old blocks are re-read from the database
				cfg.BadgerCache = []int{60, 100, 200}[r.Intn(3)]
			} else if r.Bool(0.6) {
				// persistent nodes that fall behind and reset themselves, then receive
				// late signatures for blocks from before the reset
				cfg.FastSyncLate = true
				cfg.PReFF = 0.03
				cfg.PSilence = 0.05
				cfg.Steps += 80
				mixStores(cfg, r, 0.5)
			}
			if r.Bool(0.2) {
				// applications whose commit handler sometimes reports an error after
				// having applied the block (the node never sees the response)
				cfg.PAppError = 0.05
			} else if r.Bool(0.3) {
				// persistent nodes killed between two store writes (e.g. between the
				// two versions of one block: bare, then with the commit response and
				// the signature) and restarted with bootstrap: what they report for a
				// block after the restart - also once it has left the cache - is what
				// they re-delivered
				mixStores(cfg, r, 0.7)
				cfg.PCrash = 0.04
				cfg.PReFF = 0
				cfg.FastSyncLate = false
			}
			return cfg
		},
		run: clusterRun,
	}
}

func mixStores(cfg *RunConfig, r *RNG, pBadger float64) {
	for i := range cfg.Stores {
		if r.Bool(pBadger) {
			cfg.Stores[i] = "badger"
		}
	}
}

package sim

import (
	"fmt"
	"os"
	"runtime"
	"runtime/debug"
	"strings"
	"sync/atomic"
	"testing"
	"testing/synctest"
	"time"

	hg "github.com/mosaicnetworks/babble/src/hashgraph"
	_state "github.com/mosaicnetworks/babble/src/node/state"
)

// RunResult is what one simulated run reports to the orchestrator.
type RunResult struct {
	Property   string       `json:"property"`
	Seed       uint64       `json:"seed"`
	Config     *RunConfig   `json:"config"`
	Steps      []*Step      `json:"steps,omitempty"`
	Violations []*Violation `json:"violations,omitempty"`
	Stats      *Stats       `json:"stats"`
	TraceHash  string       `json:"trace_hash"`
	TracePer   []string     `json:"trace_per,omitempty"`
	DagShape   string       `json:"dag_shape"`
	SchedFP    string       `json:"sched_fp"`
	WallMs     int64        `json:"wall_ms"`
	Error      string       `json:"error,omitempty"`
	Nontrivial bool         `json:"nontrivial"`
	Aborted    bool         `json:"aborted,omitempty"` // stopped by the wall-clock guard (results up to that point stand; not replayable as a whole)
	FaultsHit  int          `json:"faults_hit"`
}

// runSpec describes how to obtain the steps of a run: generated from the
// seed, or replayed from a list.
type runSpec struct {
	Property  string
	Seed      uint64
	Thorough  bool
	Config    *RunConfig // nil: drawn from the seed by the profile
	Steps     []*Step    // nil: generated
	KeepSteps bool
	TracePer  bool
	StopAt    *Violation // replay/minimise: stop as soon as this oracle fired
	KnownKeys []string   // class keys of listed known findings: a run does not stop at them
}

func workdirRoot() string {
	if d := os.Getenv("SIM_WORKDIR"); d != "" {
		return d
	}
	return "/dev/shm"
}

// runOne executes one run inside a synctest bubble.
func runOne(t *testing.T, spec *runSpec) (res *RunResult) {
	start := time.Now()
	res = &RunResult{Property: spec.Property, Seed: spec.Seed}
	// wall-clock guard (real time, outside the bubble): a pathological run must
	// not hold up a whole batch
	abortRun.Store(false)
	stopGuard := make(chan struct{})
	defer close(stopGuard)
	go func() {
		limit := time.After(runWallLimit())
		tick := time.NewTicker(5 * time.Second)
		defer tick.Stop()
		last := progress.Load()
		lastChange := time.Now()
		for {
			select {
			case <-limit:
				abortRun.Store(true)
				limit = nil
				if debugTrace {
					fmt.Fprintf(os.Stderr, "GUARD: wall limit reached after %v\n", time.Since(start))
				}
			case <-tick.C:
				if p := progress.Load(); p != last {
					last, lastChange = p, time.Now()
				} else if time.Since(lastChange) > stuckLimit() {
					// no step completed for a long time: dump every goroutine and
					// give up on this worker (exit code 3: the orchestrator drops
					// the run in progress and reports it)
					buf := make([]byte, 8<<20)
					n := runtime.Stack(buf, true)
					os.WriteFile(fmt.Sprintf("%s/stuck-%d-%d.txt", stuckDir(), os.Getpid(), spec.Seed), buf[:n], 0o644)
					os.Exit(3)
				}
			case <-stopGuard:
				return
			}
		}
	}()
	prof := profiles[spec.Property]
	if prof == nil {
		res.Error = "unknown property " + spec.Property
		return res
	}
	cfg := spec.Config
	if cfg == nil {
		cfg = prof.config(NewRNG(Mix(spec.Seed, 0x636667)), spec.Thorough)
	}
	cfg.TracePerStep = spec.TracePer
	res.Config = cfg

	var cl *Cluster
	bodyDone := false
	body := func(t *testing.T) {
		defer func() {
			if r := recover(); r != nil {
				res.Error = fmt.Sprintf("%v\n%s", r, debug.Stack())
			}
			bodyDone = true
		}()
		c := newCluster(t, cfg, spec.Seed)
		c.realStart = start
		cl = c
		defer uninstallHooks()
		dir, err := os.MkdirTemp(workdirRoot(), fmt.Sprintf("babblesim-%d-", os.Getpid()))
		if err != nil {
			panic(harnessError{err.Error()})
		}
		c.workdir = dir
		defer c.cleanup()

		prof.run(c, spec)

		res.Violations = c.violations
		res.Stats = c.stats
		res.Aborted = abortRun.Load()
		res.Stats.SimMillis = time.Since(c.start).Milliseconds()
		res.TraceHash = c.trace.sum()
		res.TracePer = c.trace.per
		res.DagShape = c.dagShape()
		res.SchedFP = c.schedFingerprint()
		if spec.KeepSteps || len(c.violations) > 0 {
			res.Steps = c.steps
		}
		fh := 0
		for _, v := range c.stats.Faults {
			fh += v
		}
		res.FaultsHit = fh
		res.Nontrivial = c.stats.BlocksDelivered > 0 && fh > 0
	}

	func() {
		defer func() {
			if r := recover(); r != nil {
				msg := fmt.Sprintf("%v", r)
				if strings.Contains(msg, "deadlock") || strings.Contains(msg, "blocked goroutines") {
					if !bodyDone && cl != nil {
						// the scheduler itself is blocked inside a step: every goroutine of
						// the simulated system waits for another one
						uninstallHooks()
						last := "start"
						if n := len(cl.steps); n > 0 {
							last = cl.steps[n-1].String()
						}
						cl.violate(cl.wedgeProp(), "no-deadlock", "deadlock-inside-step", "all goroutines of the simulated system are blocked inside step %d (%s): a call into the code under test never returns", cl.stepNo, last)
						res.Violations = cl.violations
						res.Stats = cl.stats
						res.Steps = cl.steps
						res.TraceHash = cl.trace.sum()
						if cl.workdir != "" {
							os.RemoveAll(cl.workdir)
						}
						return
					}
					// goroutines the code under test gives no way to stop
					if res.Stats != nil {
						res.Stats.probe("bubble-leftover-goroutines")
					}
					return
				}
				res.Error = msg
			}
		}()
		synctest.Test(t, body)
	}()
	res.WallMs = time.Since(start).Milliseconds()
	return res
}

// genesis creates and starts the genesis validators.
func (c *Cluster) genesis() {
	cfg := c.cfg
	for i := 0; i < cfg.N0; i++ {
		n := c.addIdentity()
		n.storeKind = cfg.Stores[i]
		n.cacheSize = cfg.CacheSize
		if n.storeKind == "badger" && cfg.BadgerCache > 0 {
			n.cacheSize = cfg.BadgerCache
		}
	}
	ps := []*SimNode{}
	for _, n := range c.nodes {
		ps = append(ps, n)
		if cfg.LowerKeys && Mix(c.seed^0x6c6f77, uint64(n.idx))%2 == 0 {
			n.spell = "0x" + strings.ToLower(n.pubHex[2:])
		}
	}
	c.genesisSet = ps
	keys := []string{}
	for _, n := range ps {
		keys = append(keys, n.pubHex)
	}
	c.vs = newVSModel(keys)
	for _, n := range ps {
		n.configuredPeers = nil
		n.genesisPeers = nil
		for _, m := range ps {
			n.configuredPeers = append(n.configuredPeers, m.peer())
			n.genesisPeers = append(n.genesisPeers, m.peer())
		}
	}
	for i := 0; i < cfg.Liars && i < maxSilent(cfg.N0); i++ {
		l := c.nodes[cfg.N0-1-i]
		l.liar = true
		l.clockMode = 1 + c.gen.Intn(3)
		l.clockOff = int64(c.gen.U64())
	}
	for i := 0; i < cfg.Byz && i < cfg.N0-1; i++ {
		c.nodes[cfg.N0-1-i].byz = true
	}
	for _, n := range ps {
		if n.byz {
			continue
		}
		if err := c.startNode(n, false); err != nil {
			panic(harnessError{fmt.Sprintf("start node %d: %v", n.idx, err)})
		}
	}
}

// drive runs the generated (or recorded) schedule.
func (c *Cluster) drive(spec *runSpec) {
	g := &genState{}
	if spec.Steps != nil {
		for _, s := range spec.Steps {
			cp := *s
			c.exec(&cp)
			if c.stopNow(spec) {
				return
			}
		}
		return
	}
	for i := 0; i < c.cfg.Steps; i++ {
		s := c.genStep(g)
		c.exec(s)
		if c.stopNow(spec) {
			return
		}
		if c.tooBig() {
			c.capped = true
			c.stats.probe("run-capped-undetermined")
			return
		}
		if abortRun.Load() {
			c.stats.probe("run-aborted-wall-clock")
			return
		}
	}
	if abortRun.Load() {
		return
	}
	if c.cfg.FairSuffix {
		c.fairSuffix(spec)
	}
}

func (c *Cluster) stopNow(spec *runSpec) bool {
	if spec.StopAt != nil {
		for _, v := range c.violations {
			if v.Property == spec.StopAt.Property && v.Oracle == spec.StopAt.Oracle && (spec.StopAt.Key == "" || v.Key == spec.StopAt.Key) {
				return true
			}
		}
		return false
	}
	// in generation mode stop at the first violation of the checked property
	// (listed known findings do not stop a run: other violations must still surface)
	for _, v := range c.violations {
		if v.Property != spec.Property && v.Property != "PANIC" {
			continue
		}
		known := false
		for _, k := range spec.KnownKeys {
			if k == v.Key {
				known = true
			}
		}
		if !known {
			return true
		}
	}
	return false
}

// afterStep runs the invariants.
func (c *Cluster) afterStep(s *Step) {
	c.harvestAll()
	for _, n := range c.nodes {
		if n.running() {
			n.lastKnown = n.core().KnownEvents()
		}
	}
	c.checkForksInRecord()
	c.probeFameLag()
	full := c.cfg.FullReread || c.stepNo%maxInt(c.cfg.CheckEvery, 1) == 0
	for _, n := range c.nodes {
		if n.started && !n.byz && !n.isObserver {
			c.checkC02(n, full)
		}
	}
	c.runOracles(false)
	if s.Op == "fair" && c.fairQuiescentAt == 0 && c.quiescent() {
		c.fairQuiescentAt = c.fairCount
	}
	if c.stepHook != nil {
		c.stepHook(s)
	}
	c.traceStep()
}

func maxInt(a, b int) int {
	if a > b {
		return a
	}
	return b
}

func (c *Cluster) onCanonicalBlock(b *hg.Block) {
	for _, tx := range b.Transactions() {
		c.ledger.committed[string(tx)]++
	}
	if c.vs != nil {
		if c.vs.apply(b) {
			c.stats.probe("validator-set-change")
		}
	}
	c.checkC05Safety(b)
	if c.blockHook != nil {
		c.blockHook(b)
	}
}

func (n *SimNode) inLatestModelSet() bool {
	if n.c.vs == nil {
		return true
	}
	return contains(n.c.vs.latest(), n.pubHex)
}

func (c *Cluster) onFastForwardDone(a *SimNode, err error) {
	// "between resets the anchor never moves backwards": a (re-)fast-forward is a reset
	a.lastAnchor = -1
	if err != nil {
		c.stats.probe("fastforward-error")
		if debugTrace {
			fmt.Fprintf(os.Stderr, "  fast-forward of node %d failed: %v\n", a.idx, err)
		}
		// a fast-forward that fails must leave the node as it was; one that wiped
		// the store and then gave up leaves a node with neither its old chain nor
		// an anchor (honest responders only: hostile responses are C12's subject)
		if !c.hostileSeen && c.cfg.Byz == 0 {
			// every responder is honest: what they sent hashes and verifies; a
			// response refused for its frame hash, its peer-set hash or its
			// signatures did not reach the node as it was sent
			for _, verdict := range []string{"Invalid Frame Hash", "Wrong PeerSet", "Not enough valid signatures"} {
				if strings.Contains(err.Error(), verdict) {
					c.violate("C15", "transport-identity", "honest-fast-forward-response-refused", "node %d refused a fast-forward response although every responder is honest and nothing tampers with the traffic: %v", a.idx, err)
				}
			}
		}
		if a.running() && !c.hostileSeen && c.cfg.Byz == 0 && a.blocksBeforeFF >= 0 {
			func() {
				defer func() { recover() }()
				if a.node.GetLastBlockIndex() < 0 {
					c.violate("C13", "reset-completes", "reset-failed-halfway", "node %d: fast-forward from an honest peer failed (%v) after the store had been wiped: the node had blocks up to %d, now it has none and no anchor", a.idx, err, a.blocksBeforeFF)
				}
			}()
		}
		return
	}
	if !a.running() {
		return
	}
	anchor := a.node.GetLastBlockIndex()
	a.ffDone = true
	c.stats.probe("fastforward-ok")
	c.newSegment(a, anchor)
	delete(c.dag.harvest, a.idx)
}

func (c *Cluster) dagShape() string {
	t := newTraceHasher()
	for _, e := range c.dag.order {
		sp, op := -1, -1
		if p := c.dag.events[e.SelfP]; p != nil {
			sp = p.Seq
		}
		if p := c.dag.events[e.OtherP]; p != nil {
			op = p.Seq
		}
		t.add(fmt.Sprintf("%d:%d:%d", e.Seq, sp, op))
	}
	return t.sum()
}

func (c *Cluster) schedFingerprint() string {
	t := newTraceHasher()
	for _, s := range c.steps {
		t.add(fmt.Sprintf("%s:%d:%d:%s:%s:%s", s.Op, s.A, s.B, s.Pull, s.Push, s.Kind))
	}
	return t.sum()
}

// allIdle: no live babbling node is busy.
func (c *Cluster) allIdle() bool {
	for _, n := range c.liveBabbling() {
		if n.core().Busy() {
			return false
		}
	}
	return true
}

var _ = _state.Babbling

// every returns how often (in steps) the oracle of a property runs: every step
// in the property's own profile, less often elsewhere (auxiliary alerts).
func (c *Cluster) every(prop string, def int) bool {
	if c.cfg.Profile == prop {
		return true
	}
	return c.stepNo%def == 0
}

// runOracles evaluates the state oracles shared by all cluster profiles.
func (c *Cluster) runOracles(final bool) {
	c.recordEmittedSignatures()
	for _, n := range c.nodes {
		if !n.started || n.byz || !n.running() || n.isObserver {
			continue
		}
		c.checkC05Conservation(n)
		if final || c.every("C09", 5) {
			c.checkC09(n, final || c.stepNo%20 == 0)
		}
		if final || c.every("C10", 10) {
			c.checkC10(n)
		}
		if final || c.every("C10", 7) {
			c.checkQuorums(n)
		}
		if final || (c.cfg.Profile == "C04" && c.stepNo%10 == 0) || c.stepNo%50 == 0 {
			c.checkC04(n)
		}
	}
	if final || c.every("C10", 10) {
		c.checkC10Cross()
	}
	if final || c.every("C13", 10) {
		c.checkC13()
	}
}

// tooBig: deterministic cost cap (a stalled network keeps growing its
// undetermined set; consensus passes are quadratic in it).
func (c *Cluster) tooBig() bool {
	if len(c.dag.order) > 3500 {
		return true
	}
	for _, n := range c.nodes {
		if !n.running() {
			continue
		}
		if n.storePoints > 40000 {
			// database commits dominate the cost of runs with persistent nodes
			return true
		}
		h := n.core().Hashgraph()
		und := len(h.UndeterminedEvents)
		smallCache := n.cacheSize < 1000 && und > n.cacheSize/2
		if smallCache && n.storeKind == "badger" && c.cfg.BacklogOverCache && und <= 3*n.cacheSize {
			// a persistent node falls back to its database: a backlog larger than
			// its cache is within what it supports
			smallCache = false
			c.stats.probe("backlog-larger-than-half-the-cache")
		}
		if und > 1200 || smallCache {
			return true
		}
		// a round that stays undecided while later rounds pile up makes every
		// DecideFame pass quadratically more expensive
		if len(h.PendingRounds.GetOrderedPendingRounds()) > 30 {
			return true
		}
	}
	return false
}

// probeFameLag records how far behind the newest round the oldest undecided
// round is (distance 4 = a coin round has been reached in DecideFame).
func (c *Cluster) probeFameLag() {
	for _, n := range c.nodes {
		if !n.running() || n.isObserver {
			continue
		}
		h := n.core().Hashgraph()
		pr := h.PendingRounds.GetOrderedPendingRounds()
		if len(pr) == 0 {
			continue
		}
		// rounds that are decided but wait behind an earlier open round; a witness
		// that arrives in such a round is voted on although the round is "decided"
		open := false
		for _, p := range pr {
			if !p.Decided {
				open = true
				continue
			}
			if !open {
				continue
			}
			if n.queuedWitnesses == nil {
				n.queuedWitnesses = map[int]int{}
			}
			nw := len(h.Store.RoundWitnesses(p.Index))
			if old, ok := n.queuedWitnesses[p.Index]; !ok {
				c.stats.probe("round-decided-behind-an-open-round")
			} else if nw > old {
				c.stats.probe("late-witness-arrived-in-a-decided-queued-round")
			}
			n.queuedWitnesses[p.Index] = nw
		}
		for _, p := range pr {
			if p.Decided {
				continue
			}
			lag := h.Store.LastRound() - p.Index
			c.stats.probeMax("fame-lag-max", lag)
			if lag >= 4 && !n.lagCounted[p.Index] {
				if n.lagCounted == nil {
					n.lagCounted = map[int]bool{}
				}
				n.lagCounted[p.Index] = true
				c.stats.probe("coin-round-reached")
			}
			if lag >= 3 {
				c.stats.probeMax("fame-lag-ge3-seen-max", 1)
			}
			break
		}
	}
}

var abortRun atomic.Bool

func runWallLimit() time.Duration {
	if v := os.Getenv("SIM_RUN_WALL"); v != "" {
		if d, err := time.ParseDuration(v); err == nil {
			return d
		}
	}
	return 100 * time.Second
}

var progress atomic.Int64

func stuckLimit() time.Duration {
	if v := os.Getenv("SIM_STUCK"); v != "" {
		if d, err := time.ParseDuration(v); err == nil {
			return d
		}
	}
	return 150 * time.Second
}

func stuckDir() string {
	if d := os.Getenv("SIM_STUCK_DIR"); d != "" {
		return d
	}
	return os.TempDir()
}

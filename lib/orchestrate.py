#!/usr/bin/env python3
"""Orchestrator of the babble deterministic-simulation checks.

  check <ID> quick|thorough      explore, aggregate, write evidence, exit 0/1/2
  check replay <file>            re-execute a replay file, exit 1 if it reproduces
  check selftest [ID...]         determinism self-test (same seeds, several processes / GOMAXPROCS)

Exit codes: 0 property held on everything explored; 1 VIOLATION (not a listed
known finding); 2 build trouble, watchdog, nondeterminism, irreproducible replay.
"""
import json
import os
import shutil
import subprocess
import sys
import time

VERIF = os.path.dirname(os.path.dirname(os.path.abspath(__file__)))
SIM = os.path.join(VERIF, "sim")
BUILD = os.path.join(VERIF, ".build")
BIN = os.path.join(BUILD, "sim-%d.test" % os.getpid())
GO = "go1.26.8"

ENV = dict(os.environ)
ENV.update({"GOFLAGS": "-mod=mod", "GOPROXY": "off", "GOSUMDB": "off", "GOTOOLCHAIN": "local"})

# (quick seconds, thorough seconds) of exploration per property
BUDGET = {
    "default": (40, 900),
}

LEVEL = {"C11": "fault_enumeration", "C16": "fault_enumeration"}

COMPONENTS = {
    "real": [
        "src/hashgraph (Hashgraph, Event, Block, Frame, Root, RoundInfo, caches, InmemStore, BadgerStore over real Badger v1.6.0 on tmpfs)",
        "src/node core.go, node_rpc.go (all four RPC handlers), node.go gossip/pull/push/sync/monologue/checkSuspend/Suspend/Shutdown/fastForward/join/Leave",
        "src/peers, src/common, src/crypto/keys (verification real, signing RFC 6979 through the H1 seam)",
        "src/net command structs + JSON encoding of every request/response; in wire mode (40 % of the C15 cluster runs, 15 % of C01) the real NetworkTransport (genericRPC, connection pool, Listen/handleConn/handleCommand) over in-memory connections",
        "src/babble Babble.initStore (store kind, backup / bootstrap decision, maintenance mode) opens every simulated node's store",
        "src/proxy/inmem.InmemProxy in front of half of the simulated applications (cluster engines); src/proxy/socket app+babble sides and net/rpc/jsonrpc over in-memory pipes (proxy engine, C20); NetworkTransport.handleConn for raw bytes (C08)",
    ],
    "stub": [
        "Node.Run/babble loop, controlTimer, random peer choice (the scheduler decides who ticks and with whom)",
        "net.Transport implementation (SimTransport: direct delivery to the target's real processRPC with loss/delay/partition)",
        "application (SimApp: deterministic state hash, snapshots, membership policy)",
        "wall clock (synctest bubble clock + per-node offsets through the H2 seam)",
    ],
}


def die(code, msg):
    print(msg, flush=True)
    sys.exit(code)


import atexit


def _cleanup_bin():
    try:
        os.remove(BIN)
    except OSError:
        pass


atexit.register(_cleanup_bin)


def build():
    os.makedirs(BUILD, exist_ok=True)
    repo = os.environ.get("SIM_REPO", "/repo")
    args = [GO, "test", "-c", "-tags", "verif", "-o", BIN]
    if repo != "/repo":
        mod = open(os.path.join(SIM, "go.mod")).read().replace("=> /repo", "=> " + repo)
        alt = os.path.join(BUILD, "alt-%d.mod" % os.getpid())
        open(alt, "w").write(mod)
        shutil.copy(os.path.join(SIM, "go.sum"), os.path.join(BUILD, "alt-%d.sum" % os.getpid()))
        atexit.register(lambda: [os.path.exists(f) and os.remove(f) for f in (alt, alt[:-4] + ".sum")])
        args += ["-modfile", alt]
    args += ["."]
    p = subprocess.run(args, cwd=SIM, env=ENV, stdout=subprocess.PIPE, stderr=subprocess.STDOUT, text=True)
    if p.returncode != 0:
        print(p.stdout)
        die(2, "BUILD-FAILED: harness or /repo does not compile with -tags verif")


def repo_tree():
    repo = os.environ.get("SIM_REPO", "/repo")
    try:
        head = subprocess.run(["git", "-C", repo, "rev-parse", "--short", "HEAD"], stdout=subprocess.PIPE, text=True).stdout.strip()
        dirty = subprocess.run(["git", "-C", repo, "status", "--porcelain"], stdout=subprocess.PIPE, text=True).stdout.strip()
        return head + ("+dirty" if dirty else "")
    except Exception:
        return "unknown"


def run_workers(jobs, timeout):
    """jobs: list of dicts. Returns list of (job, results, rc, log)."""
    rundir = os.path.join(BUILD, "run-%d" % os.getpid())
    os.makedirs(rundir, exist_ok=True)
    os.makedirs(os.path.join(VERIF, "stuck"), exist_ok=True)
    procs = []
    for i, job in enumerate(jobs):
        jp = os.path.join(rundir, "job%d.json" % i)
        job["out"] = os.path.join(rundir, "out%d.jsonl" % i)
        json.dump(job, open(jp, "w"))
        env = dict(ENV)
        env["SIM_JOB"] = jp
        env["SIM_STUCK_DIR"] = os.path.join(VERIF, "stuck")
        # every persistent node opens a real Badger database (memtable arenas of
        # tens of megabytes each); keep the garbage collector ahead of that so
        # that sixteen workers stay well inside the machine's memory
        env.setdefault("GOMEMLIMIT", "3GiB")
        if "SIM_RUN_WALL" not in os.environ and job.get("mode") == "explore":
            # exploration: one pathological run must not hold a worker for long
            # (aborted runs keep their findings); replays run to the end
            env["SIM_RUN_WALL"] = "150s" if job.get("thorough") else "45s"
        if "gomaxprocs" in job:
            env["GOMAXPROCS"] = str(job["gomaxprocs"])
        else:
            env["GOMAXPROCS"] = "2"
        lp = os.path.join(rundir, "log%d.txt" % i)
        lf = open(lp, "w")
        p = subprocess.Popen([BIN, "-test.run", "^TestWorker$", "-test.timeout", "0"], cwd=rundir, env=env, stdout=lf, stderr=subprocess.STDOUT)
        procs.append((job, p, lp, lf))
    deadline = time.time() + timeout
    out = []
    for job, p, lp, lf in procs:
        rem = max(1, deadline - time.time())
        try:
            rc = p.wait(timeout=rem)
        except subprocess.TimeoutExpired:
            p.kill()
            rc = -9
        lf.close()
        results = []
        last_start = None
        if os.path.exists(job["out"]):
            for line in open(job["out"]):
                line = line.strip()
                if line:
                    try:
                        obj = json.loads(line)
                    except Exception:
                        continue
                    if "starting" in obj:
                        last_start = obj["starting"]
                    else:
                        results.append(obj)
                        last_start = None
        log = open(lp).read()[-4000:]
        if rc != 0 and last_start is not None:
            log += "\n(run in progress when the worker stopped: seed=%d)" % last_start
        out.append((job, results, rc, log))
    return out, rundir


def sweep_build():
    try:
        for d in os.listdir(BUILD):
            if d.startswith("run-") or d.startswith("sim-"):
                pid = d.split("-")[1].split(".")[0]
                if not os.path.exists("/proc/" + pid):
                    pth = os.path.join(BUILD, d)
                    if os.path.isdir(pth):
                        shutil.rmtree(pth, ignore_errors=True)
                    else:
                        os.remove(pth)
    except Exception:
        pass


def sweep_shm():
    # leftovers of crashed workers
    root = os.environ.get("SIM_WORKDIR", "/dev/shm")
    try:
        for d in os.listdir(root):
            if d.startswith("babblesim-"):
                pid = d.split("-")[1]
                if not os.path.exists("/proc/" + pid):
                    shutil.rmtree(os.path.join(root, d), ignore_errors=True)
    except Exception:
        pass


def load_known():
    p = os.path.join(VERIF, "known_findings.json")
    if not os.path.exists(p):
        return []
    return json.load(open(p)).get("findings", [])


def is_known(prop, key, known):
    for k in known:
        if k.get("property") == prop and k.get("status") == "open" and k.get("key") == key:
            return k
    return None


def write_replay(prop, res, viol, rundir):
    rf = {
        "property": prop, "oracle": viol["oracle"], "key": viol["key"], "message": viol["message"],
        "seed": res["seed"], "config": res["config"], "steps": res.get("steps") or [],
        "fired_at_step": viol["step"], "trace_hash": res["trace_hash"], "go": GO, "repo_tree": repo_tree(),
        "replay_exact": True,
    }
    rdir = os.path.join(VERIF, "replays")
    if os.environ.get("VERIF_EVIDENCE_SUFFIX"):
        rdir = os.path.join(VERIF, "replays", "tmp")
    os.makedirs(rdir, exist_ok=True)
    raw = os.path.join(rdir, "%s-%s-%d.raw.json" % (prop, viol["key"].replace("/", "_").replace("@", "_")[:40], res["seed"]))
    json.dump(rf, open(raw, "w"))
    return raw, rf


def minimise_and_confirm(prop, raw_path, rf, budget=150):
    """Returns (final_path, reproduced_bool)."""
    final = raw_path.replace(".raw.json", ".json")
    if os.environ.get("VERIF_MIN_BUDGET"):
        # sensitivity sweeps do not need small replay files
        budget = int(os.environ["VERIF_MIN_BUDGET"])
    if budget <= 0:
        shutil.copy(raw_path, final)
        return final, replay_reproduces(final)
    jobs = [{"mode": "minimise", "replay": raw_path, "budget_sec": budget}]
    out, rundir = run_workers(jobs, budget + 240)
    mini = None
    for job, results, rc, log in out:
        if results:
            mini = results[-1]
    shutil.rmtree(rundir, ignore_errors=True)
    if mini and mini.get("steps") is not None:
        mini["go"] = GO
        mini["repo_tree"] = rf["repo_tree"]
        mini["replay_exact"] = True
        json.dump(mini, open(final, "w"), indent=1)
    else:
        shutil.copy(raw_path, final)
    # replay in a fresh process: must fail the same way
    ok = replay_reproduces(final)
    if not ok:
        # fall back to the unminimised schedule
        shutil.copy(raw_path, final)
        ok = replay_reproduces(final)
    return final, ok


def replay_reproduces(path):
    rf = json.load(open(path))
    jobs = [{"mode": "replay", "replay": path}]
    out, rundir = run_workers(jobs, 600)
    ok = False
    for job, results, rc, log in out:
        for r in results:
            for v in r.get("violations") or []:
                if v["property"] == rf["property"] and v["oracle"] == rf["oracle"] and v["key"] == rf["key"]:
                    ok = v
    shutil.rmtree(rundir, ignore_errors=True)
    return ok


def check(prop, tier):
    t0 = time.time()
    seed = int(os.environ.get("VERIF_SEED", "1"))
    thorough = tier == "thorough"
    q, th = BUDGET.get(prop, BUDGET["default"])
    budget = th if thorough else q
    if os.environ.get("VERIF_BUDGET"):
        budget = float(os.environ["VERIF_BUDGET"])
    build()
    sweep_shm()
    sweep_build()
    ncpu = os.cpu_count() or 4
    workers = int(os.environ.get("VERIF_WORKERS", str(min(16, ncpu))))
    known_keys = [k["key"] for k in load_known() if k.get("property") == prop and k.get("status") == "open"]
    jobs = [{"mode": "explore", "property": prop, "thorough": thorough, "base_seed": seed, "first": w, "stride": workers,
             "max_runs": 0, "budget_sec": budget, "known_keys": known_keys} for w in range(workers)]
    out, rundir = run_workers(jobs, budget * 3 + 300)

    runs = []
    errors = []
    stuck = []
    for job, results, rc, log in out:
        runs.extend(results)
        if rc == 3:
            # the worker gave up on a run that made no progress (goroutine dump under stuck/)
            stuck.append(log[-300:])
            continue
        if rc != 0:
            errors.append("worker rc=%s: %s" % (rc, log[-1500:]))
        for r in results:
            if r.get("error"):
                errors.append("run seed=%s: %s" % (r["seed"], r["error"][:3000]))
    if not runs:
        die(2, "HARNESS-ERROR: no run completed\n" + "\n".join(errors)[:4000])
    has_viol = any(v.get("property") == prop for r in runs for v in (r.get("violations") or []))
    if errors and not has_viol:
        print("\n".join(errors)[:6000])
        die(2, "HARNESS-ERROR property=%s: %d worker/run errors (not a property verdict)" % (prop, len(errors)))
    if errors:
        # some worker failed or hung, but other runs report violations of this
        # property: those are confirmed from their replay files below and stand on
        # their own (a hang is then most likely another face of the same change)
        print("\n".join(errors)[:3000])
        print("WORKER-TROUBLE property=%s: %d worker/run errors beside reported violations" % (prop, len(errors)))
    for st in stuck:
        print("STUCK-RUN property=%s: a worker abandoned a run that made no progress (goroutine dump in /verif/stuck/): %s" % (prop, st.strip().splitlines()[-1] if st.strip() else ""))
    if len(stuck) > 2 and not has_viol:
        die(2, "HARNESS-ERROR property=%s: %d workers got stuck (not a property verdict)" % (prop, len(stuck)))

    # determinism re-check on a sample (fresh process, other GOMAXPROCS)
    complete = [r for r in runs if not r.get("aborted")]
    sample = [r["seed"] for r in complete[:: max(1, len(complete) // 6)]][:6]
    djobs = [{"mode": "seeds", "property": prop, "thorough": thorough, "seeds": sample, "gomaxprocs": 7, "known_keys": known_keys}]
    dout, drundir = run_workers(djobs, 900)
    by_seed = {r["seed"]: r for r in runs}
    div = 0
    rechecked = 0
    for job, results, rc, log in dout:
        for r in results:
            rechecked += 1
            if r.get("aborted"):
                continue
            if r["trace_hash"] != by_seed[r["seed"]]["trace_hash"]:
                div += 1
                print("NONDETERMINISM seed=%d: %s vs %s" % (r["seed"], r["trace_hash"], by_seed[r["seed"]]["trace_hash"]))
    shutil.rmtree(drundir, ignore_errors=True)

    known = load_known()
    viol_runs = []
    aux = {}
    for r in runs:
        for v in r.get("violations") or []:
            if v["property"] == prop:
                viol_runs.append((r, v))
            else:
                k = "%s/%s/%s" % (v["property"], v["oracle"], v["key"])
                if k not in aux:
                    aux[k] = {"count": 0, "example_seed": r["seed"], "example_message": v["message"][:400]}
                aux[k]["count"] += 1

    new_viol = []
    known_seen = {}
    for r, v in viol_runs:
        kf = is_known(prop, v["key"], known)
        if kf:
            known_seen.setdefault(v["key"], (kf, r, v))
        else:
            new_viol.append((r, v))

    exit_code = 0
    lines = []
    for key, (kf, r, v) in known_seen.items():
        lines.append("KNOWN-FINDING: property=%s %s [key=%s, e.g. seed %d: %s]" % (prop, kf.get("what", ""), key, r["seed"], v["message"][:300]))
    if os.environ.get("VERIF_SAVE_KNOWN"):
        # maintenance: write (and confirm) a replay file for each known class seen
        for key, (kf, r, v) in known_seen.items():
            if not r.get("steps"):
                rj = [{"mode": "seeds", "property": prop, "thorough": thorough, "seeds": [r["seed"]], "keep_steps": True, "known_keys": []}]
                ro, rd = run_workers(rj, 900)
                for job, results, rc, log in ro:
                    for rr in results:
                        if rr.get("steps"):
                            r = rr
                shutil.rmtree(rd, ignore_errors=True)
            raw, rf = write_replay(prop, r, v, rundir)
            final, ok = minimise_and_confirm(prop, raw, rf)
            lines.append("KNOWN-REPLAY key=%s reproduced=%s file=%s" % (key, ok, final))
    if new_viol:
        # one replay per distinct class key (at most 3)
        seen = set()
        for r, v in new_viol:
            if v["key"] in seen or len(seen) >= 3:
                continue
            seen.add(v["key"])
            if not r.get("steps"):
                # re-run keeping the steps
                rj = [{"mode": "seeds", "property": prop, "thorough": thorough, "seeds": [r["seed"]], "keep_steps": True}]
                ro, rd = run_workers(rj, 900)
                for job, results, rc, log in ro:
                    for rr in results:
                        if rr.get("steps"):
                            r = rr
                shutil.rmtree(rd, ignore_errors=True)
            raw, rf = write_replay(prop, r, v, rundir)
            final, ok = minimise_and_confirm(prop, raw, rf)
            if ok:
                lines.append("VIOLATION property=%s replay=%s" % (prop, final))
                lines.append("  oracle=%s key=%s seed=%d: %s" % (v["oracle"], v["key"], r["seed"], v["message"][:600]))
                exit_code = 1
            else:
                lines.append("HARNESS-ERROR property=%s: violation (oracle=%s key=%s seed=%d) did not reproduce from its replay file %s" % (prop, v["oracle"], v["key"], r["seed"], final))
                if exit_code == 0:
                    exit_code = 2

    if div:
        # a violation that reproduced exactly from its replay file stands on its own;
        # without one, a diverging re-check means the results cannot be trusted
        lines.append("NONDETERMINISM property=%s: determinism re-check diverged on %d/%d seeds" % (prop, div, rechecked))
        if exit_code == 0:
            exit_code = 2
            lines.append("HARNESS-ERROR property=%s: determinism re-check diverged (not a property verdict)" % prop)
    if (errors or len(stuck) > 2) and exit_code == 0:
        # only listed findings beside the worker trouble: no verdict
        exit_code = 2
        lines.append("HARNESS-ERROR property=%s: %d worker/run errors, %d stuck workers (not a property verdict)" % (prop, len(errors), len(stuck)))
    write_evidence(prop, tier, seed, runs, time.time() - t0, budget, workers, len(new_viol), list(known_seen.keys()), aux, rechecked, div)
    shutil.rmtree(rundir, ignore_errors=True)
    for l in lines:
        print(l)
    for k in sorted(aux):
        # oracles of OTHER properties (or the harness's own cross-checks) that fired
        # during these runs: information, never this check's verdict
        print("AUX-ALERT %s: %d run(s), e.g. seed %d: %s" % (k, aux[k]["count"], aux[k]["example_seed"], aux[k]["example_message"][:200]))
    n = len(runs)
    print("%s %s: %d runs, %d violations (%d known), %.0fs" % (prop, tier, n, len(viol_runs), len(viol_runs) - len(new_viol), time.time() - t0))
    sys.exit(exit_code)


def write_evidence(prop, tier, seed, runs, wall, budget, workers, nviol, known_seen, aux, rechecked, div):
    faults, probes, ops = {}, {}, {}
    steps = events = blocks = simms = 0
    nontriv = set()
    traces, dags, scheds = set(), set(), set()
    for r in runs:
        st = r.get("stats") or {}
        steps += st.get("steps", 0)
        events += st.get("events_created", 0)
        blocks += st.get("blocks_delivered", 0)
        simms += st.get("sim_ms", 0)
        for k, v in (st.get("faults") or {}).items():
            faults[k] = faults.get(k, 0) + v
        for k, v in (st.get("probes") or {}).items():
            if k.endswith("-max"):
                probes[k] = max(probes.get(k, 0), v)
            else:
                probes[k] = probes.get(k, 0) + v
        for k, v in (st.get("ops") or {}).items():
            ops[k] = ops.get(k, 0) + v
        traces.add(r["trace_hash"])
        dags.add(r.get("dag_shape"))
        scheds.add(r.get("sched_fp"))
        if r.get("nontrivial"):
            nontriv.add(r["trace_hash"])
    samples = []
    for r in runs:
        if r.get("steps"):
            samples.append({"seed": r["seed"], "config": r["config"], "steps_total": len(r["steps"]), "first_steps": r["steps"][:25]})
        if len(samples) >= 2:
            break
    if not samples:
        samples = [{"seed": runs[0]["seed"], "config": runs[0]["config"]}]
    zero_probes = [k for k in EXPECTED_PROBES.get(prop, []) if probes.get(k, 0) == 0]
    ev = {
        "property_id": prop,
        "tier": tier,
        "seed": seed,
        "level": LEVEL.get(prop, "exploration"),
        "coverage": {
            "evaluations": len(runs),
            "distinct_nontrivial": len(nontriv),
            "rule": "one evaluation = one seeded simulated run (whole cluster + fault schedule, step list derived from the run seed); "
                    "non-trivial = the run delivered at least one block and at least one injected fault actually fired; "
                    "distinct = distinct rolling trace hash over (known events, last block, consensus round, pools, head) of all nodes after every step",
            "samples": samples,
            "exhaustive": False,
            "runs_per_hour": round(len(runs) / max(wall, 1e-9) * 3600),
            "sim_seconds": round(simms / 1000.0, 1),
            "steps": steps,
            "events_created": events,
            "blocks_delivered": blocks,
            "faults_fired": faults,
            "ops": ops,
            "probes": probes,
            "probes_stuck_at_zero": zero_probes,
            "distinct_schedules": len(scheds),
            "distinct_dag_shapes": len(dags),
            "distinct_trace_hashes": len(traces),
            "components": COMPONENTS,
            "seeds": [r["seed"] for r in runs[:8]],
            "determinism_recheck": {"runs": rechecked, "divergences": div},
            "known_findings_seen": known_seen,
            "aux_alerts": aux,
            "workers": workers,
            "budget_sec": budget,
            "slowest_runs": [{"seed": r["seed"], "wall_ms": r.get("wall_ms"), "steps": (r.get("stats") or {}).get("steps")} for r in sorted(runs, key=lambda r: -(r.get("wall_ms") or 0))[:3]],
        },
        "assumptions": [
            "sampling of schedules and fault sequences, not enumeration",
            "interleavings explored at RPC / operation granularity (coreLock critical sections are atomic)",
            "harness built with go1.26.8 (testing/synctest); baseline suite uses the default toolchain",
        ],
        "wall_s": round(wall, 1),
        "violations": nviol,
    }
    os.makedirs(os.path.join(VERIF, "evidence"), exist_ok=True)
    suffix = os.environ.get("VERIF_EVIDENCE_SUFFIX", "")
    json.dump(ev, open(os.path.join(VERIF, "evidence", prop + suffix + ".json"), "w"), indent=1)


EXPECTED_PROBES = {
    "C01": ["fame-decided-at-distance-3", "fame-decided-at-distance-5", "coin-round-vote-exact-supermajority", "validator-set-change", "async-gossip", "synthetic-split-vote-template", "dagreplay-variant:delay", "dagreplay-variant:near-early", "dagreplay-variant:near-late", "synthetic-near-miss-history-strong", "synthetic-leave-history", "synthetic-leave-conflict-in-model", "refmodel-cross-checked", "synthetic-deep-election-history"],
    "C02": ["validator-set-change", "re-fast-forward", "async-gossip", "late-request-executed", "joiner-spawned"],
    "C03": ["dagreplay-variant:view", "dagreplay-variant:order", "dagreplay-variant:delay", "dagreplay-variant:subdag", "dagreplay-variant:store", "dagreplay-variant:smallbadger", "dagreplay-variant:batch", "synthetic-dag"],
    "C04": ["c04-order-checked", "backlog-larger-than-half-the-cache"],
    "C05": ["submit-from-commit-callback", "async-gossip", "node-killed"],
    "C06": ["c06-liveness-evaluated", "validator-set-change", "submit-from-commit-callback", "synthetic-deep-election-history", "c06-synthetic-fair-continuation-checked", "synthetic-coin-bit-ground", "fame-decided-at-distance-9", "directed-early-leave"],
    "C07": ["c07-admitted", "c07-rejected", "c07-attempt-with-valid-membership-payload", "c07-stale-head-attempt"],
    "C08": ["c08-input:raw-bytes", "c08-input:sync", "c08-input:eager", "c08-input:join", "c08-input:ff", "c08-input:syncresp", "c08-input:ffresp", "c08-valid-join-request-copies", "c07-attempt:no-self-parent-huge-index", "c08-rolled-window-instance", "c08-input:known-index-on-rolled-window"],
    "C09": ["c09-anchor-checked", "c09-hostile-signatures:malformed", "c09-hostile-signatures:other-body", "validator-set-change"],
    "C10": ["c10-history-checked", "c10-quorum-round-checked", "c10-quorum-decided-round-checked", "c10-fame-decision-checked", "c10-fame-decision-across-set-change-checked", "validator-set-change"],
    "C11": ["shadow-bootstrap", "restart-bootstrap", "crash-inside-insertion", "crash-between-ancestor-updates", "shadow-continuation", "store-point", "recovered-block-read-from-database"],
    "C12": ["ff-refused", "ff-accepted", "ff-attempt-on-previously-adopted-pair", "ff-attempt:sigs-below-threshold-plus-strangers", "ff-attempt:body-statehash-resigned-by-one-member"],
    "C13": ["fastforward-ok", "re-fast-forward", "c13-ff-history-checked", "pile-reff", "permute:InmemStore.Reset", "directed-early-leave", "ff-window-push"],
    "C14": ["ff-attempt:forged-validator-set", "ff-forged-set-offered-again", "ff-forged-set-after-forged-join-response"],
    "C15": ["c15-wire-roundtrip", "c15-block-json", "c15-frame-json", "c15-db-events-reloaded", "c15-frame-handover", "wire-rpc"],
    "C16": ["c16-ops-applied", "c16-reopens", "c16-restart-after-kill", "c16-reset-checked", "c16-write-through-checked", "c16-event-written-again-after-commit-error"],
    "C17": ["c17-runtime-suspend", "auto-suspended", "c17-suspended-sync-checked", "c17-leave-then-restart", "c17-maintenance-session-opened", "c17-maintenance-session-closed", "c17-suspend-with-routine-in-flight", "c17-starve", "c17-leave-then-restart-driven-to-suspension"],
    "C18": ["c18-block-checked", "c18-liar-among-famous-witnesses"],
    "C20": ["c20-commit-checked", "c20-submit-checked", "c20-call-failed-with-error", "c20-block-delivered-more-than-once"],
}


def replay(path):
    path = os.path.abspath(path)
    build()
    rf = json.load(open(path))
    v = replay_reproduces(path)
    if v:
        print("VIOLATION property=%s replay=%s" % (rf["property"], path))
        print("  oracle=%s key=%s: %s" % (rf["oracle"], rf["key"], v["message"][:3000]))
        sys.exit(1)
    print("replay %s: violation not reproduced on this tree" % path)
    sys.exit(0)


def selftest(props):
    build()
    bad = 0
    total = 0
    for prop in props:
        jobs = []
        for rep in range(3):
            for gmp in (1, 4, 16):
                jobs.append({"mode": "explore", "property": prop, "thorough": False, "base_seed": 424242, "first": 0, "stride": 1,
                             "max_runs": int(os.environ.get("SELFTEST_RUNS", "12")), "budget_sec": 1200, "gomaxprocs": gmp})
        out, rundir = run_workers(jobs, 3000)
        by = {}
        for job, results, rc, log in out:
            for r in results:
                by.setdefault(r["seed"], set()).add(r["trace_hash"] + "|" + (r.get("error") or "")[:80])
                total += 1
        for s, hs in by.items():
            if len(hs) > 1:
                bad += 1
                print("NONDETERMINISM property=%s seed=%d: %s" % (prop, s, sorted(hs)))
        shutil.rmtree(rundir, ignore_errors=True)
        print("selftest %s: %d seeds, divergent so far %d" % (prop, len(by), bad))
    print("selftest: %d executions, %d divergent seeds" % (total, bad))
    sys.exit(2 if bad else 0)


def main():
    if len(sys.argv) < 2:
        die(2, __doc__)
    if sys.argv[1] == "replay":
        replay(sys.argv[2])
    elif sys.argv[1] == "selftest":
        selftest(sys.argv[2:] or ["C01"])
    elif sys.argv[1] == "build":
        build()
        shutil.copy(BIN, os.path.join(BUILD, "sim.test"))
        print("built", os.path.join(BUILD, "sim.test"))
    else:
        prop = sys.argv[1]
        tier = sys.argv[2] if len(sys.argv) > 2 else os.environ.get("VERIF_TIER", "quick")
        check(prop, tier)


if __name__ == "__main__":
    main()
